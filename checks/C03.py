"""C03 -- weakly-relational shapes over native integers contain the exact result (DESIGN.md section 5, C03)."""
import os, sys
sys.path.insert(0, os.path.join(os.path.dirname(os.path.abspath(__file__)), "..", "tools"))
from vlib import *
from C11 import TYPES

OPS1 = [("closure", "void", "FN_closure(&G_X.s)"), ("is_empty", "_Bool", "_Bool r = FN_is_empty(&G_X.s)")]
OPS2 = [("intersection", "FN_intersection(&G_X.s, &G_Y.s)"), ("upper_bound", "FN_upper_bound(&G_X.s, &G_Y.s)"),
        ("contains", "_Bool r = FN_contains(&G_X.s, &G_Y.s)"), ("is_disjoint_from", "_Bool r = FN_is_disjoint_from(&G_X.s, &G_Y.s)"),
        ("equal", "_Bool r = FN_equal(&G_X.s, &G_Y.s)")]
ROOTS = "re:^(w_(closure|is_empty|intersection|upper_bound|contains|is_disjoint_from|equal)$|ST_|ENC_|POL_)"

def bds_unit(tt):
    cxx, w, sg = TYPES[tt]
    return Unit("C03", "bds_%s" % tt, "units/C03/bds.cc", defs={"VT": cxx, "T_W": w, "T_SIGNED": sg}, roots=ROOTS,
                cut=["re:BD_Shape<.*>::throw_", "re:Bit_Matrix::", "re:operator==\\(.*Bit_Matrix"], stubs=["common.c", "c03.c"])

def setup(two):
    s = """  for (int i = 0; i < N; i++) { G_X.rows[i].f0.f0 = (void *)&G_X.blk[i]; G_X.blk[i].size = N; G_Y.rows[i].f0.f0 = (void *)&G_Y.blk[i]; G_Y.blk[i].size = N; }
  G_X.s.f0.f0.f0.f0.f0.f0 = G_X.rows; G_X.s.f0.f0.f0.f0.f0.f1 = G_X.rows + N; G_X.s.f0.f0.f0.f0.f0.f2 = G_X.rows + N; G_X.s.f0.f1 = N; G_X.s.f0.f2 = N;
  G_Y.s.f0.f0.f0.f0.f0.f0 = G_Y.rows; G_Y.s.f0.f0.f0.f0.f0.f1 = G_Y.rows + N; G_Y.s.f0.f0.f0.f0.f0.f2 = G_Y.rows + N; G_Y.s.f0.f1 = N; G_Y.s.f0.f2 = N;
  G_X.s.f2.f0.f0.f0.f0.f0 = 0; G_X.s.f2.f0.f0.f0.f0.f1 = 0; G_X.s.f2.f0.f0.f0.f0.f2 = 0; G_X.s.f2.f1 = 0;
  G_Y.s.f2.f0.f0.f0.f0.f0 = 0; G_Y.s.f2.f0.f0.f0.f0.f1 = 0; G_Y.s.f2.f0.f0.f0.f0.f2 = 0; G_Y.s.f2.f1 = 0;
  G_pt[0] = 0;
  __CPROVER_assume(shape_wf(&G_X) && shape_wf(&G_Y) && pt_ok());
  G_satX0 = sat(&G_X.s); G_satY0 = sat(&G_Y.s);"""
    return s

def build(tier):
    units = []; T = []
    types = ["s8"] if tier == "quick" else ["s8", "s32"]
    dims = [1, 2]
    for tt in types:
        u = bds_unit(tt); units.append(u)
        w = TYPES[tt][1]
        for d in dims:
            n = d + 1
            bound = {"unwind": n + 1, "note": "space dimension %d (matrix order %d); matrix contents, status flags and ghost point arbitrary; loops unwound with unwinding assertions" % (d, n)}
            kw = dict(bounded=bound, timeout=3000, object_bits=9, defs={"N": n, "PT_RANGE": "((int64_t)1 << %d)" % min(w + 2, 40)}, split_post=True, mem_gb=40)
            heavy_ok = (d == 1)          # beyond dimension 1 only closure / intersection (/ is_empty in the thorough tier) fit in memory
            for (name, rt, call) in OPS1:
                if d > 1 and name == "is_empty" and tier == "quick": continue
                T.append(Task("bds/%s/%s/dim%d" % (tt, name, d), u, "FN_" + name, ["C03/bds.h"], [], call, harness_pre=setup(False),
                              reach=[("point inside", "G_satX0")], **kw))
            for (name, call) in OPS2:
                if name == "upper_bound": continue      # attempted: the query exceeds 40 GB already in dimension 1 (contract kept in contracts/C03/bds.h)
                if not heavy_ok and name != "intersection": continue
                T.append(Task("bds/%s/%s/dim%d" % (tt, name, d), u, "FN_" + name, ["C03/bds.h"], [], call, harness_pre=setup(True),
                              reach=[("point in both", "G_satX0 && G_satY0")], **kw))
    return units, T

def main(tier, only=None):
    units, tasks = build(tier)
    if only: tasks = [t for t in tasks if only in t.id]; units = [u for u in units if any(t.unit is u for t in tasks)]
    return run_check("C03", tier, tasks, units, "other",
                     trusted_base=["clang 14 front end + LLVM mem2reg", "tools/ll2c.py (IR -> C)", "CBMC 6.11 / cadical", "stubs/common.c", "stubs/c03.c"],
                     extra_assumptions=["operations taking Linear_Expression / Constraint / Generator / another domain (affine transformers, converting constructors: GMP coefficients), the float and GMP instantiations, octagons and boxes are NOT covered by this check (boxes' interval layer: C12)"],
                     explanation="bounded-dimension CBMC code contracts with a ghost point on BD_Shape<native integer> operations extracted from the real headers",
                     max_workers=5)

if __name__ == "__main__":
    import argparse
    ap = argparse.ArgumentParser(); ap.add_argument("--tier", default="quick"); ap.add_argument("--only", default=None)
    a = ap.parse_args()
    sys.exit(main(a.tier, a.only))
