"""C03 -- weakly-relational shapes over native integers contain the exact result (DESIGN.md section 5, C03)."""
import os, sys
sys.path.insert(0, os.path.join(os.path.dirname(os.path.abspath(__file__)), "..", "tools"))
from vlib import *
from C11 import TYPES

OPS1 = [("closure", "void", "FN_closure(&G_X.s)"), ("is_empty", "_Bool", "_Bool r = FN_is_empty(&G_X.s)")]
OPS2 = [("intersection", "FN_intersection(&G_X.s, &G_Y.s)"), ("upper_bound", "FN_upper_bound(&G_X.s, &G_Y.s)"),
        ("contains", "_Bool r = FN_contains(&G_X.s, &G_Y.s)"), ("is_disjoint_from", "_Bool r = FN_is_disjoint_from(&G_X.s, &G_Y.s)"),
        ("equal", "_Bool r = FN_equal(&G_X.s, &G_Y.s)")]
ROOTS = "re:^(w_(closure|is_empty|intersection|upper_bound|contains|is_disjoint_from|equal)$|ST_|ENC_|POL_)"

def bds_unit(tt):
    cxx, w, sg = TYPES[tt]
    return Unit("C03", "bds_%s" % tt, "units/C03/bds.cc", defs={"VT": cxx, "T_W": w, "T_SIGNED": sg}, roots=ROOTS,
                cut=["re:BD_Shape<.*>::throw_", "re:Bit_Matrix::", "re:operator==\\(.*Bit_Matrix"], stubs=["common.c", "c03.c"])

def setup(two):
    s = """  for (int i = 0; i < N; i++) { G_X.rows[i].f0.f0 = (void *)&G_X.blk[i]; G_X.blk[i].size = N; G_Y.rows[i].f0.f0 = (void *)&G_Y.blk[i]; G_Y.blk[i].size = N; }
  G_X.s.f0.f0.f0.f0.f0.f0 = G_X.rows; G_X.s.f0.f0.f0.f0.f0.f1 = G_X.rows + N; G_X.s.f0.f0.f0.f0.f0.f2 = G_X.rows + N; G_X.s.f0.f1 = N; G_X.s.f0.f2 = N;
  G_Y.s.f0.f0.f0.f0.f0.f0 = G_Y.rows; G_Y.s.f0.f0.f0.f0.f0.f1 = G_Y.rows + N; G_Y.s.f0.f0.f0.f0.f0.f2 = G_Y.rows + N; G_Y.s.f0.f1 = N; G_Y.s.f0.f2 = N;
  G_X.s.f2.f0.f0.f0.f0.f0 = 0; G_X.s.f2.f0.f0.f0.f0.f1 = 0; G_X.s.f2.f0.f0.f0.f0.f2 = 0; G_X.s.f2.f1 = 0;
  G_Y.s.f2.f0.f0.f0.f0.f0 = 0; G_Y.s.f2.f0.f0.f0.f0.f1 = 0; G_Y.s.f2.f0.f0.f0.f0.f2 = 0; G_Y.s.f2.f1 = 0;
  G_pt[0] = 0;
  __CPROVER_assume(shape_wf(&G_X) && shape_wf(&G_Y) && pt_ok());
  G_satX0 = sat(&G_X.s); G_satY0 = sat(&G_Y.s);"""
    return s

# ---------------------------------------------------------------- boxes (Box<Interval<intN, Info>>)
BOX_ROOTS = "re:^(w_b_|w_OK$|w_add$|ENC_|POL_|LOWER_|UPPER_|STORE_|MAY_|BST_)"
BOX_OPS1 = ["is_empty", "is_universe", "is_bounded", "is_discrete", "is_topologically_closed", "topological_closure"]
BOX_OPS2 = ["contains", "strictly_contains", "is_disjoint_from", "equal", "intersection", "upper_bound", "upper_bound_if_exact", "difference", "time_elapse"]
BOX_VOID = {"intersection", "upper_bound", "difference", "topological_closure", "unconstrain", "time_elapse"}
def box_unit(tt, pol, prop="C03"):
    from C12 import POLS
    cxx, w, sg = TYPES[tt]
    return Unit(prop, "box_%s_%s" % (tt, pol), "units/C03/box.cc", defs={"VB": cxx, "VPOL": POLS[pol], "T_W": w, "T_SIGNED": sg}, roots=BOX_ROOTS,
                cut=["re:Box<.*>::throw_"], stubs=["common.c"], type_aliases={"ITV_T": ("w_add", 0), "BOX_T": ("w_b_OK", 0)},
                global_aliases={"BOX_STOPS": r"Box<.*>::CC76_widening_assign.*::stop_points$"},
                aliases={"FN_b_unconstrain": r"Box<.*>::unconstrain\(Parma_Polyhedra_Library::Variable\)$"})
def box_vars():
    return [Var("ITV_T", "xs0"), Var("ITV_T", "xs1"), Var("ITV_T", "ys0"), Var("ITV_T", "ys1"), Var("uint32_t", "fx"), Var("uint32_t", "fy"),
            Var("int32_t", "pn0"), Var("int32_t", "pn1"), Var("int8_t", "ps0"), Var("int8_t", "ps1"),
            Var("int32_t", "qn0"), Var("int32_t", "qn1"), Var("int8_t", "qs0"), Var("int8_t", "qs1"), Var("int32_t", "tt")]
BOX_SETUP = """  G_xs[0] = xs0; G_xs[1] = xs1; G_ys[0] = ys0; G_ys[1] = ys1;
  BOX_BEGIN(&G_bx) = G_xs; BOX_END(&G_bx) = G_xs + BOX_D; BOX_CAP(&G_bx) = G_xs + BOX_D; BOX_FLAGS(&G_bx) = fx;
  BOX_BEGIN(&G_by) = G_ys; BOX_END(&G_by) = G_ys + BOX_D; BOX_CAP(&G_by) = G_ys + BOX_D; BOX_FLAGS(&G_by) = fy;
  G_pn[0] = pn0; G_pn[1] = pn1; G_ps[0] = ps0; G_ps[1] = ps1; G_qn[0] = qn0; G_qn[1] = qn1; G_qs[0] = qs0; G_qs[1] = qs1; G_t = tt;
  __CPROVER_assume(box_wf(&G_bx, G_xs) && box_wf(&G_by, G_ys) && pt_ok() && ns_ok(G_pn[0], G_ps[0]) && ns_ok(G_pn[1], G_ps[1]) && ns_ok(G_qn[0], G_qs[0]) && ns_ok(G_qn[1], G_qs[1]));   /* (unused coordinates kept in range too: the spec arithmetic evaluates them) */
  G_satQ0 = box_sat_pt(&G_by, G_ys, GQ(0), GQ(1));
  G_xs0[0] = G_xs[0]; G_xs0[1] = G_xs[1]; G_fx0 = fx;
  G_satX0 = box_sat(&G_bx, G_xs); G_satY0 = box_sat(&G_by, G_ys); G_emptyX0 = box_empty(&G_bx, G_xs); G_emptyY0 = box_empty(&G_by, G_ys);"""
BOX_NATIVE_DECL = """
#define XSTR2(a) #a
#define XSTR(a) XSTR2(a)
ex_t G_an, G_bn; int G_as, G_bs; ITV_T G_to0; int64_t G_z;
ITV_T G_xs[BOX_N], G_ys[BOX_N]; BOX_T G_bx, G_by; ex_t G_pn[BOX_N]; int G_ps[BOX_N]; ITV_T G_xs0[BOX_N]; uint32_t G_fx0;
int G_satX0, G_satY0, G_emptyX0, G_emptyY0; ex_t G_qn[BOX_N]; int G_qs[BOX_N]; int32_t G_t; int G_satQ0; uint32_t G_tokens, G_tokens0; int G_plain_changed; uint32_t G_fy0;
"""
def box_native(fn, ret, proto, call, posts, extra_pre=""):
    """native replay of a box task: the harness objects are rebuilt around the counterexample values and handed to the real function"""
    pre = re.sub(r'__CPROVER_assume\((.*)\);', r'PRE(operands_well_formed, \1)', BOX_SETUP) + "\n  BOX_T *x = &G_bx, *y = &G_by;" + extra_pre
    return {"decl": BOX_NATIVE_DECL + "extern %s real_fn(%s) __asm__(XSTR(%s));" % (ret, proto, fn), "pre": pre, "call": call, "post": posts,
            "show": 'printf("  x: flags=%u  y: flags=%u\\n", BOX_FLAGS(&G_bx), BOX_FLAGS(&G_by));'}

def box_tasks(u, tt, pol, dims):
    T = []; w = u.defs["T_W"]
    for d in dims:
        bound = {"unwind": d + 2, "note": "space dimension %d; interval bounds, special/open bits, status flags and ghost point arbitrary; loops unwound with unwinding assertions" % d}
        kw = dict(bounded=bound, timeout=1800, object_bits=9, defs={"BOX_D": d, "GHOST_RANGE": "((ex_t)%d)" % (1 << (w + 1))}, split_post=True,
                  stubs=["c12_ghost.c", "c17_ghost.c", "c03_box.c"], harness_pre=BOX_SETUP, group="box %s %s" % (tt, pol))
        for op in BOX_OPS1:
            call = ("FN_b_%s(&G_bx)" if op in BOX_VOID else "_Bool r = FN_b_%s(&G_bx)") % op
            nat = box_native("FN_b_" + op, "void" if op in BOX_VOID else "bool", "BOX_T*", "real_fn(x)" if op in BOX_VOID else "bool r = real_fn(x)", "C_b_%s_POSTS(%s)" % (op, "0" if op in BOX_VOID else "r"))
            T.append(Task("box/%s/%s/%s/dim%d" % (tt, pol, op, d), u, "FN_b_" + op, ["C03/box.h"], box_vars(), call, native=nat,
                          reach=[("point inside", "G_satX0"), ("x empty but not marked", "G_emptyX0 && !(fx & BST_EMPTY)")] if d > 0 else [], **kw))
        for op in BOX_OPS2:
            call = ("FN_b_%s(&G_bx, &G_by)" if op in BOX_VOID else "_Bool r = FN_b_%s(&G_bx, &G_by)") % op
            nat = box_native("FN_b_" + op, "void" if op in BOX_VOID else "bool", "BOX_T*, BOX_T*", "real_fn(x, y)" if op in BOX_VOID else "bool r = real_fn(x, y)", "C_b_%s_POSTS(%s)" % (op, "0" if op in BOX_VOID else "r"))
            T.append(Task("box/%s/%s/%s/dim%d" % (tt, pol, op, d), u, "FN_b_" + op, ["C03/box.h"], box_vars(), call, native=nat,
                          reach=[("point in both", "G_satX0 && G_satY0")] if d > 0 else [], **kw))
        if d > 0:
            T.append(Task("box/%s/%s/unconstrain/dim%d" % (tt, pol, d), u, "FN_b_unconstrain", ["C03/box.h"], box_vars() + [Var("uint64_t", "v")], "FN_b_unconstrain(&G_bx, v)",
                          native=box_native("FN_b_unconstrain", "void", "BOX_T*, uint64_t", "real_fn(x, v)", "C_b_unconstrain_POSTS(0)", extra_pre=" PRE(var, v < BOX_D)"),
                          reach=[("point inside", "G_satX0")], **kw))
    return T

# ---------------------------------------------------------------- octagons (Octagonal_Shape<int8_t>)
def oct_tasks(tier):
    cxx, w, sg = TYPES["s8"]
    u = Unit("C03", "oct_s8", "units/C03/oct.cc", defs={"VT": cxx, "T_W": w, "T_SIGNED": sg}, roots="re:^(w_o_|OST_|ENC_|POL_)",
             cut=["re:Octagonal_Shape<.*>::throw_"], stubs=["common.c", "c03.c"], type_aliases={"OCT_T": ("w_o_closure", 0)})
    pre = """  O_IMPL(&G_OX.s) = (void *)&G_OX.blk; G_OX.blk.size = OCELLS; G_OX.s.f0.f1 = OD; G_OX.s.f0.f2 = OCELLS; G_OX.s.f1 = OD;
  O_IMPL(&G_OY.s) = (void *)&G_OY.blk; G_OY.blk.size = OCELLS; G_OY.s.f0.f1 = OD; G_OY.s.f0.f2 = OCELLS; G_OY.s.f1 = OD;
  __CPROVER_assume(oct_wf(&G_OX) && oct_wf(&G_OY) && opt_ok());
  G_osatX0 = osat(&G_OX.s); G_osatY0 = osat(&G_OY.s);"""
    T = []
    for d in ((1,) if tier == "quick" else (1, 2)):
        bound = {"unwind": 2 * d * (d + 1) + 2, "note": "space dimension %d (%d stored cells); matrix contents, status flags and ghost point arbitrary; loops unwound with unwinding assertions" % (d, 2 * d * (d + 1))}
        kw = dict(bounded=bound, timeout=3000, object_bits=9, defs={"OD": d, "OPT_RANGE": "((int64_t)1 << %d)" % (w + 2)}, split_post=True, mem_gb=40, harness_pre=pre, group="octagon s8")
        for (name, call, two) in [("closure", "FN_o_closure(&G_OX.s)", False), ("is_empty", "_Bool r = FN_o_is_empty(&G_OX.s)", False),
                                  ("intersection", "FN_o_intersection(&G_OX.s, &G_OY.s)", True), ("contains", "_Bool r = FN_o_contains(&G_OX.s, &G_OY.s)", True),
                                  ("is_disjoint_from", "_Bool r = FN_o_is_disjoint_from(&G_OX.s, &G_OY.s)", True), ("equal", "_Bool r = FN_o_equal(&G_OX.s, &G_OY.s)", True)]:
            if d == 2 and name in ("contains", "is_disjoint_from", "equal"): continue     # two strong closures of 12 cells: exhaust 40 GB (tried, undecided)
            T.append(Task("oct/s8/%s/dim%d" % (name, d), u, "FN_o_" + name, ["C03/oct.h"], [], call,
                          reach=[("point in both", "G_osatX0 && G_osatY0")] if two else [("point inside", "G_osatX0")], **kw))
    return [u], T

def build(tier):
    units = []; T = []
    types = ["s8"] if tier == "quick" else ["s8", "s32"]
    dims = [1, 2]
    for tt in types:
        u = bds_unit(tt); units.append(u)
        w = TYPES[tt][1]
        for d in dims:
            n = d + 1
            bound = {"unwind": n + 1, "note": "space dimension %d (matrix order %d); matrix contents, status flags and ghost point arbitrary; loops unwound with unwinding assertions" % (d, n)}
            kw = dict(bounded=bound, timeout=3000, object_bits=9, defs={"N": n, "PT_RANGE": "((int64_t)1 << %d)" % min(w + 2, 40)}, split_post=True, mem_gb=40)
            heavy_ok = (d == 1)          # beyond dimension 1 only closure / intersection (/ is_empty in the thorough tier) fit in memory
            for (name, rt, call) in OPS1:
                if d > 1 and name == "is_empty" and tier == "quick": continue
                T.append(Task("bds/%s/%s/dim%d" % (tt, name, d), u, "FN_" + name, ["C03/bds.h"], [], call, harness_pre=setup(False),
                              reach=[("point inside", "G_satX0")], **kw))
            for (name, call) in OPS2:
                if name == "upper_bound": continue      # attempted: the query exceeds 40 GB already in dimension 1 (contract kept in contracts/C03/bds.h)
                if not heavy_ok and name != "intersection": continue
                T.append(Task("bds/%s/%s/dim%d" % (tt, name, d), u, "FN_" + name, ["C03/bds.h"], [], call, harness_pre=setup(True),
                              reach=[("point in both", "G_satX0 && G_satY0")], **kw))
    for (tt, pol) in ([("s8", "nat"), ("s8", "rat")] if tier == "quick" else [(t, p) for t in ("s8", "s32") for p in ("nat", "rat")]):
        u = box_unit(tt, pol); units.append(u)
        T += box_tasks(u, tt, pol, [1, 2] if tier == "quick" else [0, 1, 2])
    ou, ot = oct_tasks(tier); units += ou; T += ot
    return units, T

def main(tier, only=None):
    units, tasks = build(tier)
    if only: tasks = [t for t in tasks if only in t.id]; units = [u for u in units if any(t.unit is u for t in tasks)]
    return run_check("C03", tier, tasks, units, "other",
                     trusted_base=["clang 14 front end + LLVM mem2reg", "tools/ll2c.py (IR -> C)", "CBMC 6.11 / cadical", "stubs/common.c", "stubs/c03.c", "stubs/c03_box.c"],
                     extra_assumptions=["operations taking Linear_Expression / Constraint / Generator / another domain (affine transformers, refinements, converting constructors: GMP coefficients) and the float and GMP instantiations are NOT covered by this check; octagons only in space dimension 1", "boxes: only the operations whose operands are boxes (comparisons, predicates, meet, join, difference, closure, unconstrain) in space dimension <= 2, soundness clauses only; their interval layer is check C12", "box status: the UNIVERSE bit is assumed clear (no Box code sets it)"],
                     explanation="bounded-dimension CBMC code contracts with a ghost point on BD_Shape<native integer>, Octagonal_Shape<native integer> and Box<Interval<native integer>> operations extracted from the real headers",
                     max_workers=5)

if __name__ == "__main__":
    import argparse
    ap = argparse.ArgumentParser(); ap.add_argument("--tier", default="quick"); ap.add_argument("--only", default=None)
    a = ap.parse_args()
    sys.exit(main(a.tier, a.only))
