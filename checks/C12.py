"""C12 -- interval arithmetic encloses every concrete result (DESIGN.md section 5, C12)."""
import os, sys
sys.path.insert(0, os.path.join(os.path.dirname(os.path.abspath(__file__)), "..", "tools"))
from vlib import *
from C11 import TYPES, XSTR

ROOTS = "re:^(w_|ENC_|POL_|LOWER_|UPPER_|STORE_|MAY_)"
POLS = {"nat": 1, "rat": 2}

def unit_for(tt, pol):
    cxx, w, sg = TYPES[tt]
    return Unit("C12", "itv_%s_%s" % (tt, pol), "units/C12/interval.cc", defs={"VB": cxx, "VPOL": POLS[pol], "T_W": w, "T_SIGNED": sg},
                roots=ROOTS, stubs=["common.c"], type_aliases={"ITV_T": ("w_add", 0)})

GHOST = "ex_t G_an, G_bn; int G_as, G_bs; ITV_T G_to0;"
SIGN_CASES = {"pos": "(!lo_inf(%s) && lo(%s) >= 0)", "neg": "(!hi_inf(%s) && hi(%s) <= 0)",
              "mix": "((lo_inf(%s) || lo(%s) < 0) && (hi_inf(%s) || hi(%s) > 0))"}
def sign_case(v, c): return SIGN_CASES[c].replace("%s", v)

def itv_task(u, tt, pol, op, nargs, ghost_range=None, timeout=1800, bounded=None, case=None):
    w = u.defs["T_W"]
    gr = ghost_range or (1 << (w + 1))
    vars = [Var("ITV_T", "to", snapshot=False), Var("ITV_T", "x", snapshot=True)]
    if nargs == 2: vars.append(Var("ITV_T", "y", snapshot=True)); args = "&to, &x, &y"; proto = "ITV_T*, const ITV_T*, const ITV_T*"; post = "C_%s_POSTS(r, (&to), (&x_old), (&y_old))" % op
    else: args = "&to, &x"; proto = "ITV_T*, const ITV_T*"; post = "C_%s_POSTS(r, (&to), (&x_old), (&x_old))" % op
    vars += [Var("int32_t" if w == 8 else "int64_t", "an"), Var("int32_t" if w == 8 else "int64_t", "bn"), Var("int8_t", "as"), Var("int8_t", "bs")]
    pre_h = "  G_an = an; G_bn = bn; G_as = as; G_bs = bs;"
    native = {"decl": XSTR + GHOST + "\nextern uint32_t real_fn(%s) __asm__(XSTR(FN_%s));" % (proto, op),
              "pre": pre_h + "\n  PRE(wf_x, real_OK(&x))" + ("\n  PRE(wf_y, real_OK(&y))" if nargs == 2 else ""),
              "call": "uint32_t r = real_fn((ITV_T*)%s)" % args.replace("&x", "(const ITV_T*)&x").replace("&y", "(const ITV_T*)&y"),
              "post": post, "show": 'printf("  I_Result r=0x%x\\n", r);'}
    if case:
        pre_h += "\n  __CPROVER_assume(%s && %s);" % (sign_case("(&x)", case[0]), sign_case("(&y)", case[1]))
    return Task("%s/%s/%s%s" % (tt, pol, op, ("/" + case[0] + "-" + case[1]) if case else ""), u, "FN_" + op, ["C12/interval.h"], vars, "uint32_t r = FN_%s(%s)" % (op, args),
                defs={"GHOST_RANGE": "((ex_t)%d)" % gr}, native=native, harness_pre=pre_h, timeout=timeout, bounded=bounded,
                stubs=["c12_ghost.c"], group="%s %s" % (tt, pol), harness_post="", reach=[("x and y nonempty", "!is_empty_set(&x)"), ("ghost point inside", "GHOST_OK && mem(&x, GA)")])

OPS = [("neg", 1), ("add", 2), ("sub", 2), ("mul", 2), ("div", 2), ("assign", 1), ("join2", 2), ("intersect2", 2), ("difference2", 2)]
SELF_OPS = ["join", "intersect", "difference"]
REL_OPS = ["refine_existential", "refine_universal"]
PREDS = [("is_empty", 1), ("contains", 2), ("strictly_contains", 2), ("is_disjoint_from", 2), ("equal", 2)]

def ghost_vars(w):
    gt = "int32_t" if w == 8 else "int64_t"
    return [Var(gt, "an"), Var(gt, "bn"), Var("int8_t", "as"), Var("int8_t", "bs")], "  G_an = an; G_bn = bn; G_as = as; G_bs = bs;"

def self_task(u, tt, pol, op, rel=False):
    """receiver is also an operand: to.op(x) / to.op(rel, x)"""
    w = u.defs["T_W"]; gv, pre_h = ghost_vars(w)
    vars = [Var("ITV_T", "to", snapshot=True), Var("ITV_T", "x", snapshot=True)] + ([Var("uint32_t", "rel")] if rel else []) + gv
    args = "&to, rel, &x" if rel else "&to, &x"
    proto = "ITV_T*, uint32_t, const ITV_T*" if rel else "ITV_T*, const ITV_T*"
    post = ("C_%s_POSTS(r, (&to), (&to_old), rel, (&x_old))" if rel else "C_%s_POSTS(r, (&to), (&to_old), (&x_old))") % op
    pre_c = pre_h + "\n  G_to0 = to;"
    native = {"decl": XSTR + GHOST + "\nextern uint32_t real_fn(%s) __asm__(XSTR(FN_%s));" % (proto, op),
              "pre": pre_h + "\n  PRE(wf_to, real_OK(&to)) PRE(wf_x, real_OK(&x))" + (" PRE(rel, rel_valid(rel))" if rel else ""),
              "call": "uint32_t r = real_fn(%s)" % args, "post": post, "show": 'printf("  I_Result r=0x%x\\n", r);'}
    return Task("%s/%s/%s" % (tt, pol, op), u, "FN_" + op, ["C12/interval.h"], vars, "uint32_t r = FN_%s(%s)" % (op, args),
                defs={"GHOST_RANGE": "((ex_t)%d)" % (1 << (w + 1))}, native=native, harness_pre=pre_c, timeout=1800,
                group="%s %s" % (tt, pol), reach=[("receiver nonempty", "!is_empty_set(&G_to0)"), ("ghost point inside", "GHOST_OK && mem(&G_to0, GA)")],
                stubs=["c12_ghost.c"])

def pred_task(u, tt, pol, op, nargs):
    vars = [Var("ITV_T", "x"), Var("ITV_T", "y")] if nargs == 2 else [Var("ITV_T", "x")]
    args = "&x, &y" if nargs == 2 else "&x"; proto = "const ITV_T*, const ITV_T*" if nargs == 2 else "const ITV_T*"
    post = "C_%s_POSTS(r, (&x), (&%s))" % (op, "y" if nargs == 2 else "x")
    native = {"decl": XSTR + GHOST + "\nextern bool real_fn(%s) __asm__(XSTR(FN_%s));" % (proto, op),
              "pre": "  PRE(wf_x, real_OK(&x))" + (" PRE(wf_y, real_OK(&y))" if nargs == 2 else ""),
              "call": "bool r = real_fn(%s)" % args, "post": post, "show": 'printf("  answer r=%d\\n", (int)r);'}
    return Task("%s/%s/%s" % (tt, pol, op), u, "FN_" + op, ["C12/interval.h"], vars, "_Bool r = FN_%s(%s)" % (op, args),
                defs={"GHOST_RANGE": "((ex_t)%d)" % (1 << (u.defs["T_W"] + 1))}, native=native, timeout=900,
                group="%s %s" % (tt, pol), reach=[("answer true", "r"), ("answer false", "!r")], stubs=["c12_ghost.c"])

def build(tier):
    units = []; tasks = []
    combos = [("s8", "nat"), ("s8", "rat")] if tier == "quick" else [(t, p) for t in ("s8", "s16", "s32", "s64", "u8") for p in ("nat", "rat")]
    for (tt, pol) in combos:
        u = unit_for(tt, pol); units.append(u)
        for (op, n) in OPS:
            if op in ("mul", "div") and u.defs["T_W"] > 8:
                # products / quotients of 16-bit and wider bounds (spec arithmetic at twice the width) do not finish within
                # 30 minutes per sign case on any installed back end: not covered at these widths (stated in the level note)
                continue
            if op in ("mul", "div"):
                # the enclosure of products / quotients is a non-linear fact: split by the sign configuration of
                # the operands (the nine cases are exhaustive) so that each SAT query stays small; run in parallel
                for cx in ("pos", "neg", "mix"):
                    for cy in ("pos", "neg", "mix"):
                        tasks.append(itv_task(u, tt, pol, op, n, case=(cx, cy)))
            else: tasks.append(itv_task(u, tt, pol, op, n))
        for op in SELF_OPS: tasks.append(self_task(u, tt, pol, op))
        for op in REL_OPS: tasks.append(self_task(u, tt, pol, op, rel=True))
        for (op, n) in PREDS: tasks.append(pred_task(u, tt, pol, op, n))
    return units, tasks

def main(tier, only=None):
    units, tasks = build(tier)
    if only: tasks = [t for t in tasks if only in t.id]; units = [u for u in units if any(t.unit is u for t in tasks)]
    return run_check("C12", tier, tasks, units, "proof",
                     trusted_base=["clang 14 front end + LLVM mem2reg", "tools/ll2c.py (IR -> C)", "CBMC 6.11 / cadical", "stubs/common.c"],
                     extra_assumptions=["A6: enclosure at near-standard points (n + s*eps) implies enclosure for all real members (monotonicity of the operations on sign-constant pieces); stated, not machine-checked",
                                        "interval types over floating-point, mpz and mpq bounds, Linear_Form and linearize are outside the proof"],
                     explanation="per-function CBMC code contracts on Interval<native integer, Info> operations extracted from the current /repo sources; ghost-point enclosure + exactness of bounds")

if __name__ == "__main__":
    import argparse
    ap = argparse.ArgumentParser(); ap.add_argument("--tier", default="quick"); ap.add_argument("--only", default=None)
    a = ap.parse_args()
    sys.exit(main(a.tier, a.only))
