"""C16 -- the sparse tree is a correct ordered map (CO_Tree half; DESIGN.md section 5, C16)."""
import os, sys
sys.path.insert(0, os.path.join(os.path.dirname(os.path.abspath(__file__)), "..", "tools"))
from vlib import *

ALIASES = {"FN_OK": r"CO_Tree::OK\(\) const", "FN_structure_OK": r"CO_Tree::structure_OK\(\) const",
           "FN_bisect_in": r"CO_Tree::bisect_in\(unsigned long, unsigned long, unsigned long\) const",
           "FN_bisect_near": r"CO_Tree::bisect_near\(unsigned long, unsigned long\) const",
           "FN_insert_kd": r"CO_Tree::insert\(unsigned long, __gmp_expr<.*> const&\)$",
           "FN_insert_k": r"CO_Tree::insert\(unsigned long\)$",
           "FN_erase_k": r"CO_Tree::erase\(unsigned long\)$",
           "FN_rebuild_bigger_tree": r"CO_Tree::rebuild_bigger_tree\(\)", "FN_increase_keys_from": r"CO_Tree::increase_keys_from\(",
           "FN_iter_inc": r"CO_Tree::iterator::operator\+\+\(\)$", "FN_rebalance": r"CO_Tree::rebalance\(",
           "FN_insert_precise": r"CO_Tree::insert_precise\(",
           "FN_insert_hinted": r"CO_Tree::insert\(Parma_Polyhedra_Library::CO_Tree::iterator, unsigned long, __gmp_expr<.*> const&\)$"}
def unit():
    return Unit("C16", "co_tree_cc", REPO + "/src/CO_Tree.cc", roots="re:^_ZNK?23Parma_Polyhedra_Library7CO_Tree", cut=["re:CO_Tree::dump_subtree"],
                aliases=ALIASES, stubs=["common.c", "c16_gmp.c"])

def tree_setup(rs):
    """an arbitrary tree object of capacity rs: the index and data arrays are harness objects with arbitrary contents;
       the fields that structure_OK() computes with before checking them (max_depth, the two end markers of the index
       array, the cached end iterators) are set as init() / refresh_cached_iterators() set them"""
    if rs == 0:
        return "  TREE_T t; t.f2 = 0; t.f3 = 0; t.f5 = 0; t.f6 = 0; t.f7 = 0; t.f0.f0 = 0; t.f0.f1 = 0; t.f1.f0 = 0; t.f1.f1 = 0;\n  t.f0.f0 = (uint64_t *)0 + 1; t.f1.f0 = (uint64_t *)0 + 1;\n"
    depth = {3: 2, 7: 3, 15: 4}[rs]
    return ("  TREE_T t; t.f2 = %d; t.f3 = G_idx; t.f5 = G_dat; t.f6 = %d; G_idx[0] = 0; G_idx[%d] = 0;\n"
            "  t.f0.f0 = &G_idx[%d]; t.f0.f1 = &G_dat[%d]; t.f1.f0 = &G_idx[%d]; t.f1.f1 = &G_dat[%d];\n" % (depth, rs, rs + 1, rs + 1, rs + 1, rs + 1, rs + 1))

def build(tier):
    u = unit(); T = []
    H = ["C16/cotree.h"]
    sizes = [3, 7]     # reserved_size 15 was tried in the thorough tier: OK_lemma / bisect_in / bisect_near exhaust 40 GB (undecided), so both tiers stop at 7
    for rs in sizes:
        bound = {"unwind": 2 * rs + 4, "note": "every well-formed tree of reserved_size %d (result capacity up to %d); loops unwound with unwinding assertions" % (rs, 2 * rs + 1)}
        glob = "uint64_t G_idx[%d]; MPZ_T G_dat[%d];" % (rs + 2, rs + 1)
        kw = dict(bounded=bound, timeout=3000, object_bits=9, defs={"RS": rs, "CAP": 2 * rs + 1, "POOL_N": 2 * rs + 1}, split_post=True, mem_gb=12)
        pre = glob_pre = tree_setup(rs)
        T.append(Task("OK_lemma/rs%d" % rs, u, "FN_OK", H, [], "_Bool r = FN_OK(&t)", harness_pre=pre,
                      reach=[("full-ish tree", "t.f7 >= %d" % (rs - 1 if rs > 3 else 3))], **kw))
        T.append(Task("bisect_in/rs%d" % rs, u, "FN_bisect_in", H, [Var("uint64_t", "first"), Var("uint64_t", "last"), Var("uint64_t", "key"), Var("uint64_t", "p")],
                      "uint64_t r = FN_bisect_in(&t, first, last, key)", harness_pre=pre + "  G_p = p;",
                      reach=[("key found", "G_idx[r] == key"), ("key absent", "G_idx[r] != key")], **kw))
        T.append(Task("bisect_near/rs%d" % rs, u, "FN_bisect_near", H, [Var("uint64_t", "hint"), Var("uint64_t", "key"), Var("uint64_t", "p")],
                      "uint64_t r = FN_bisect_near(&t, hint, key)", harness_pre=pre + "  G_p = p;",
                      reach=[("key found", "G_idx[r] == key"), ("key absent", "G_idx[r] != key")] + ([("hint is far", "hint + 2 < r || r + 2 < hint")] if rs > 3 else []), **kw))
    for rs in [0, 3, 7]:
        bound = {"unwind": 2 * max(rs, 1) + 4, "note": "every well-formed tree of reserved_size %d; loops unwound with unwinding assertions" % rs}
        kw = dict(bounded=bound, timeout=3000, object_bits=9, defs={"RS": rs, "CAP": 2 * max(rs, 1) + 1, "POOL_N": (2 * rs + 1) if rs else 3}, split_post=True, mem_gb=16)
        pre = tree_setup(rs)
        snap = "  G_k = gk; G_old = lookup(&t, gk); G_old_size = (int)t.f7; POOL_IDX_used = 0; POOL_DAT_used = 0;\n"
        T.append(Task("rebuild_bigger_tree/rs%d" % rs, u, "FN_rebuild_bigger_tree", H, [Var("uint64_t", "gk")], "FN_rebuild_bigger_tree(&t)",
                      harness_pre=pre + snap, reach=([("non-empty", "t.f7 > 0")] if rs else []), **kw))
        if rs:
            T.append(Task("increase_keys_from/rs%d" % rs, u, "FN_increase_keys_from", H, [Var("uint64_t", "gk"), Var("uint64_t", "key"), Var("uint64_t", "n"), Var("uint64_t", "mx")],
                          "FN_increase_keys_from(&t, key, n)", harness_pre=pre + snap + "  G_max_key = mx; for (int i = 1; i <= %d; i++) __CPROVER_assume(G_idx[i] == UNUSED || G_idx[i] <= mx);\n" % rs,
                          reach=[("some key moves", "lookup(&t, gk + n).present && gk >= key && n > 0")], **kw))
            T.append(Task("iterator_increment/rs%d" % rs, u, "FN_iter_inc", H, [Var("uint64_t", "p"), Var("uint64_t", "q"), Var("ITER_T", "it")],
                          "ITER_T *r = FN_iter_inc(&it)", harness_pre=pre + "  G_tree = t; G_p = p; G_q = q; __CPROVER_assume(p >= 1 && p <= %d && q <= %d); it.f0 = &G_idx[p]; it.f1 = &G_dat[p];\n" % (rs, rs + 1),
                          reach=[("reaches end", "it.f0 == &G_idx[%d]" % (rs + 1)), ("finds next", "it.f0 != &G_idx[%d]" % (rs + 1))], **kw))
    for rs in []:   # attempted: the query for rebalance() at reserved_size 7 exceeds 30 GB (see DESIGN.md); contract kept in contracts/C16/cotree.h
        bound = {"unwind": 2 * rs + 4, "note": "every tree of reserved_size %d with one pending insertion next to a leaf; loops unwound with unwinding assertions" % rs}
        kw = dict(bounded=bound, timeout=3400, object_bits=9, defs={"RS": rs, "CAP": rs, "POOL_N": 2 * rs + 1}, split_post=True, mem_gb=30)
        T.append(Task("rebalance_insert/rs%d" % rs, u, "FN_rebalance", H, [Var("uint64_t", "gk"), Var("uint64_t", "key"), Var("uint64_t", "leaf"), Var("MPZ_T", "val"), Var("TITER_T", "res"), Var("TITER_T", "it")],
                      "FN_rebalance(&res, &t, &it, key, &val)",
                      harness_pre=tree_setup(rs) + "  G_k = gk; G_old = lookup(&t, gk); G_new_data = coef_of(&val); it.f0 = &t; it.f1 = leaf; it.f2 = 1; POOL_IDX_used = 0; POOL_DAT_used = 0;\n",
                      reach=[("whole tree redistributed", "res.f1 == %d" % ((rs + 1) // 2))], **kw))
    for rs in [3, 7]:
        bound = {"unwind": 2 * rs + 4, "note": "every well-formed tree of reserved_size %d, every hint; insert_precise() replaced by an ASSUMED (not discharged) contract, bisect_near() by its enforced contract" % rs}
        kw = dict(bounded=bound, timeout=3400, object_bits=9, defs={"RS": rs, "CAP": 2 * rs + 1, "POOL_N": 2 * rs + 1}, split_post=True, mem_gb=30)
        T.append(Task("insert_hinted/rs%d" % rs, u, "FN_insert_hinted", H, [Var("uint64_t", "key"), Var("uint64_t", "gk"), Var("uint64_t", "p"), Var("MPZ_T", "data"), Var("ITER_T", "res"), Var("ITER_T", "it")],
                      "FN_insert_hinted(&res, &t, &it, key, &data)", replace=["FN_bisect_near", "FN_insert_precise"], assumed=["FN_insert_precise"],
                      harness_pre=tree_setup(rs) + "  G_k = gk; G_p = p; __CPROVER_assume(p >= 1 && p <= %d); it.f0 = &G_idx[p]; it.f1 = &G_dat[p];\n  G_old = lookup(&t, gk); G_old_size = (int)t.f7; G_key_was_present = lookup(&t, key).present; G_new_data = coef_of(&data); POOL_IDX_used = 0; POOL_DAT_used = 0;\n" % (rs + 1),
                      reach=[("new key", "!G_key_was_present"), ("replacement", "G_key_was_present"), ("hint is the end iterator", "G_p == %d" % (rs + 1))], **kw))
    for rs in [3, 7]:
        bound = {"unwind": 2 * rs + 4, "note": "every well-formed tree of reserved_size %d; insert_precise() replaced by an ASSUMED (not discharged) contract" % rs}
        kw = dict(bounded=bound, timeout=3400, object_bits=9, defs={"RS": rs, "CAP": 2 * rs + 1, "POOL_N": 2 * rs + 1}, split_post=True, mem_gb=30)
        T.append(Task("insert_key_data_modular/rs%d" % rs, u, "FN_insert_kd", H, [Var("uint64_t", "key"), Var("uint64_t", "gk"), Var("MPZ_T", "data"), Var("ITER_T", "res")],
                      "FN_insert_kd(&res, &t, key, &data)", replace=["FN_insert_precise"], assumed=["FN_insert_precise"],
                      harness_pre=tree_setup(rs) + "  G_k = gk; G_old = lookup(&t, gk); G_old_size = (int)t.f7; G_key_was_present = lookup(&t, key).present; G_new_data = coef_of(&data); POOL_IDX_used = 0; POOL_DAT_used = 0;\n",
                      reach=[("new key", "!G_key_was_present"), ("replacement", "G_key_was_present")], **kw))
    for rs in [0]:
        bound = {"unwind": 2 * max(rs, 3) + 4, "note": "every well-formed tree of reserved_size %d, one operation (result capacity up to %d); loops unwound with unwinding assertions" % (rs, 2 * max(rs, 1) + 1)}
        kw = dict(bounded=bound, timeout=3000, object_bits=9, defs={"RS": rs, "CAP": 2 * max(rs, 3) + 1, "POOL_N": (2 * rs + 1) if rs else 3}, split_post=True, mem_gb=16)
        pre = tree_setup(rs)
        snap = "  G_k = gk; G_old = lookup(&t, gk); G_old_size = (int)t.f7; G_key_was_present = lookup(&t, key).present;\n"
        T.append(Task("insert_key_data/rs%d" % rs, u, "FN_insert_kd", H, [Var("uint64_t", "key"), Var("uint64_t", "gk"), Var("MPZ_T", "data"), Var("ITER_T", "res")],
                      "FN_insert_kd(&res, &t, key, &data)", harness_pre=pre + snap + "  G_new_data = coef_of(&data);",
                      reach=[("new key", "!G_key_was_present"), ("grows", "t.f6 > RS")] + ([("replacement", "G_key_was_present")] if rs else []), **kw))
        T.append(Task("insert_key/rs%d" % rs, u, "FN_insert_k", H, [Var("uint64_t", "key"), Var("uint64_t", "gk"), Var("ITER_T", "res")],
                      "FN_insert_k(&res, &t, key)", harness_pre=pre + snap + "  POOL_IDX_used = 0; POOL_DAT_used = 0; _ZN23Parma_Polyhedra_Library18Coefficient_zero_pE = &G_zero_coefficient;",
                      reach=[("new key", "!G_key_was_present")], **kw))
        if rs:
            T.append(Task("erase_key/rs%d" % rs, u, "FN_erase_k", H, [Var("uint64_t", "key"), Var("uint64_t", "gk"), Var("ITER_T", "res")],
                          "FN_erase_k(&res, &t, key)", harness_pre=pre + snap + "  POOL_IDX_used = 0; POOL_DAT_used = 0;",
                          reach=[("key present", "G_key_was_present"), ("key absent", "!G_key_was_present"), ("shrinks", "t.f6 < RS")], **kw))
    return [u], T

def main(tier, only=None):
    units, tasks = build(tier)
    if only: tasks = [t for t in tasks if only in t.id]
    return run_check("C16", tier, tasks, units, "other",
                     trusted_base=["clang 14 front end + LLVM mem2reg", "tools/ll2c.py (IR -> C)", "CBMC 6.11 / cadical", "stubs/common.c", "stubs/c16_gmp.c (GMP value moves, allocation never fails)"],
                     extra_assumptions=["the dense/sparse equivalence of Linear_Expression / Sparse_Row / Dense_Row (GMP arithmetic, virtual dispatch) is NOT covered"],
                     explanation="bounded-capacity CBMC code contracts on the real src/CO_Tree.cc: arbitrary well-formed tree of a fixed capacity, one operation, whole-map postconditions through a ghost key")

if __name__ == "__main__":
    import argparse
    ap = argparse.ArgumentParser(); ap.add_argument("--tier", default="quick"); ap.add_argument("--only", default=None)
    a = ap.parse_args()
    sys.exit(main(a.tier, a.only))
