"""C14 -- rejected calls change nothing (narrow: dimension-incompatible box operations; DESIGN.md section 10.2)."""
import os, sys
sys.path.insert(0, os.path.join(os.path.dirname(os.path.abspath(__file__)), "..", "tools"))
from vlib import *
import C03

OPS2 = ["contains", "strictly_contains", "is_disjoint_from", "intersection", "upper_bound", "upper_bound_if_exact", "difference"]
def unit_for(tt, pol):
    u = C03.box_unit(tt, pol, prop="C14")
    # the throw helpers stay cut out of the extraction; here they get a checking stub (contracts/C14/box_reject.h)
    u.aliases = dict(u.aliases, FN_b_throw_dim_box=r"Box<.*>::throw_dimension_incompatible\(char const\*, Parma_Polyhedra_Library::Box<.*> const&\) const$",
                     FN_b_throw_dim_n=r"Box<.*>::throw_dimension_incompatible\(char const\*, unsigned long\) const$")
    return u

def setup(dx, dy):
    return """  G_xs[0] = xs0; G_xs[1] = xs1; G_ys[0] = ys0; G_ys[1] = ys1;
  BOX_BEGIN(&G_bx) = G_xs; BOX_END(&G_bx) = G_xs + %d; BOX_CAP(&G_bx) = G_xs + %d; BOX_FLAGS(&G_bx) = fx;
  BOX_BEGIN(&G_by) = G_ys; BOX_END(&G_by) = G_ys + %d; BOX_CAP(&G_by) = G_ys + %d; BOX_FLAGS(&G_by) = fy;
  __CPROVER_assume((fx & ~3u) == 0 && (fy & ~3u) == 0);
  G_bx_entry = G_bx; G_by_entry = G_by; G_xs_entry[0] = G_xs[0]; G_xs_entry[1] = G_xs[1]; G_ys_entry[0] = G_ys[0]; G_ys_entry[1] = G_ys[1];""" % (dx, dx, dy, dy)

NATIVE_DECL = C03.BOX_NATIVE_DECL + "BOX_T G_bx_entry, G_by_entry; ITV_T G_xs_entry[BOX_N], G_ys_entry[BOX_N];\n#include <stdexcept>\n"
def native(fn, ret, proto, args, dx, dy):
    """native replay: the operands are rebuilt around the counterexample values and the real function is called in try / catch"""
    pre = re.sub(r'__CPROVER_assume\((.*)\);', r'PRE(status_words, \1)', setup(dx, dy)) + "\n  BOX_T *x = &G_bx, *y = &G_by;"
    call = "bool threw = false; try { real_fn(%s); } catch (const std::invalid_argument &) { threw = true; }" % args
    return {"decl": NATIVE_DECL + "extern %s real_fn(%s) __asm__(XSTR(%s));" % (ret, proto, fn), "pre": pre, "call": call, "post": "C_reject_POSTS(threw)",
            "show": 'printf("  std::invalid_argument thrown: %d\\n", (int)threw);'}

def build(tier):
    units = []; T = []
    for (tt, pol) in ([("s8", "rat")] if tier == "quick" else [("s8", "nat"), ("s8", "rat")]):
        u = unit_for(tt, pol); units.append(u)
        for (dx, dy) in ([(2, 1), (1, 2)] if tier == "quick" else [(2, 1), (1, 2), (0, 1), (2, 0)]):
            bound = {"unwind": 4, "note": "space dimensions %d and %d; interval contents and status flags arbitrary (not even required to be well formed: a rejected call must not look at them)" % (dx, dy)}
            kw = dict(bounded=bound, timeout=900, object_bits=9, defs={"BOX_D": dx, "GHOST_RANGE": "((ex_t)512)"}, stubs=["c12_ghost.c", "c17_ghost.c", "c03_box.c"],
                      harness_pre=setup(dx, dy), group="box %s %s" % (tt, pol), nothrow=False, no_return=True)
            for op in OPS2:
                call = ("FN_b_%s(&G_bx, &G_by)" if op in C03.BOX_VOID else "_Bool r = FN_b_%s(&G_bx, &G_by)") % op
                T.append(Task("box/%s/%s/%s/dims%d-%d" % (tt, pol, op, dx, dy), u, "FN_b_" + op, ["C14/box_reject.h"], C03.box_vars(), call,
                              native=native("FN_b_" + op, "void" if op in C03.BOX_VOID else "bool", "BOX_T*, BOX_T*", "x, y", dx, dy), **kw))
            T.append(Task("box/%s/%s/CC76_widening_assign/dims%d-%d" % (tt, pol, dx, dy), u, "FN_b_cc76", ["C14/box_reject.h"], C03.box_vars(), "FN_b_cc76(&G_bx, &G_by, (uint32_t *)0)",
                          native=native("FN_b_cc76", "void", "BOX_T*, BOX_T*, uint32_t*", "x, y, (uint32_t *)0", dx, dy), **kw))
        for dx in (1, 2):
            kw = dict(bounded={"unwind": 4, "note": "space dimension %d; variable index anywhere at or beyond it" % dx}, timeout=900, object_bits=9, defs={"BOX_D": dx, "GHOST_RANGE": "((ex_t)512)"},
                      stubs=["c12_ghost.c", "c17_ghost.c", "c03_box.c"], harness_pre=setup(dx, dx), group="box %s %s" % (tt, pol), nothrow=False, no_return=True)
            T.append(Task("box/%s/%s/unconstrain/dim%d" % (tt, pol, dx), u, "FN_b_unconstrain", ["C14/box_reject.h"], C03.box_vars() + [Var("uint64_t", "v")], "FN_b_unconstrain(&G_bx, v)",
                          native=dict(native("FN_b_unconstrain", "void", "BOX_T*, uint64_t", "x, v", dx, dx), pre=re.sub(r'__CPROVER_assume\((.*)\);', r'PRE(status_words, \1)', setup(dx, dx)) + "\n  BOX_T *x = &G_bx, *y = &G_by;\n  PRE(variable_outside_the_box, v >= %d && v < ((uint64_t)1 << 40))" % dx), **kw))
    return units, T

BDS_OPS = ["intersection", "contains", "strictly_contains", "is_disjoint_from"]     # (difference_assign / time_elapse_assign go through constraints and polyhedra: GMP; upper_bound_assign exhausts 40 GB, as in check C03)
def bds_tasks(tier):
    """BD_Shape<int8_t>: dimension-incompatible calls (x of matrix order N, y of order N - 1)"""
    from C11 import TYPES
    cxx, w, sg = TYPES["s8"]
    u = Unit("C14", "bds_s8", "units/C03/bds.cc", defs={"VT": cxx, "T_W": w, "T_SIGNED": sg},
             roots="re:^(w_(%s)$|ST_|ENC_|POL_)" % "|".join(BDS_OPS), cut=["re:BD_Shape<.*>::throw_", "re:Bit_Matrix::", "re:operator==\\(.*Bit_Matrix"], stubs=["common.c", "c03.c"],
             aliases={"FN_bds_throw_dim": r"BD_Shape<.*>::throw_dimension_incompatible\(char const\*, Parma_Polyhedra_Library::BD_Shape<.*> const&\) const$"})
    T = []
    for n in (2,):
        pre = C03.setup(True).replace("  __CPROVER_assume(shape_wf(&G_X) && shape_wf(&G_Y) && pt_ok());\n", "").replace("  G_satX0 = sat(&G_X.s); G_satY0 = sat(&G_Y.s);", "")
        pre += ("\n  G_Y.s.f0.f0.f0.f0.f0.f1 = G_Y.rows + N - 1; G_Y.s.f0.f0.f0.f0.f0.f2 = G_Y.rows + N - 1; G_Y.s.f0.f1 = N - 1; G_Y.s.f0.f2 = N - 1;"
                "\n  for (int i = 0; i < N; i++) G_Y.blk[i].size = N - 1;\n  __CPROVER_assume(FLAGS(&G_X.s) <= 7u && FLAGS(&G_Y.s) <= 7u);\n  G_X_entry = G_X; G_Y_entry = G_Y;")
        kw = dict(bounded={"unwind": n + 2, "note": "x of space dimension %d, y of dimension %d; matrix contents and status flags arbitrary" % (n - 1, n - 2)}, timeout=900, object_bits=9,
                  defs={"N": n, "PT_RANGE": "((int64_t)512)"}, harness_pre=pre, group="bd shape s8", nothrow=False, no_return=True, mem_gb=40)
        for op in BDS_OPS:
            call = ("FN_%s(&G_X.s, &G_Y.s)" if op in ("intersection",) else "_Bool r = FN_%s(&G_X.s, &G_Y.s)") % op
            T.append(Task("bds/s8/%s/order%d-%d" % (op, n, n - 1), u, "FN_" + op, ["C14/bds_reject.h"], [], call, **kw))
    return [u], T

def main(tier, only=None):
    units, tasks = build(tier)
    bu, bt = bds_tasks(tier); units += bu; tasks += bt
    if only: tasks = [t for t in tasks if only in t.id]; units = [u for u in units if any(t.unit is u for t in tasks)]
    return run_check("C14", tier, tasks, units, "other",
                     trusted_base=["clang 14 front end + LLVM mem2reg", "tools/ll2c.py (IR -> C)", "CBMC 6.11 / cadical", "stubs/common.c", "stubs/c03_box.c",
                                   "contracts/C14/box_reject.h: the two throw_dimension_incompatible helpers only format a message and throw std::invalid_argument (assumed)"],
                     extra_assumptions=["only the first half of C14, and only for dimension-incompatible calls of box operations whose operands are boxes: topology / constraint-kind / denominator / generator preconditions, every other domain and solver, allocation failure, abandonment and coefficient overflow are NOT covered (exception unwinding itself is outside the extraction, L2)"],
                     explanation="CBMC code contracts 'requires incompatible dimensions, ensures false' on Box operations extracted from the real headers, with a checking stub at the throw site asserting that both operands are bit-for-bit unchanged")

if __name__ == "__main__":
    import argparse
    ap = argparse.ArgumentParser(); ap.add_argument("--tier", default="quick"); ap.add_argument("--only", default=None)
    a = ap.parse_args()
    sys.exit(main(a.tier, a.only))
