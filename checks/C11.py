"""C11 -- checked arithmetic reports true rounding relations (DESIGN.md section 5, C11)."""
import os, sys
sys.path.insert(0, os.path.join(os.path.dirname(os.path.abspath(__file__)), "..", "tools"))
from vlib import *

TYPES = {  # tag: (C++ type, width, signed)
 "s8": ("signed char", 8, 1), "s16": ("signed short", 16, 1), "s32": ("signed int", 32, 1), "s64": ("signed long", 64, 1),
 "u8": ("unsigned char", 8, 0), "u16": ("unsigned short", 16, 0), "u32": ("unsigned int", 32, 0), "u64": ("unsigned long", 64, 0),
 "sll": ("signed long long", 64, 1), "ull": ("unsigned long long", 64, 0), "c": ("char", 8, 1),
}
POLICIES = {"wrd": "WRD_Extended_Number_Policy", "cop": "Check_Overflow_Policy<VT>", "bic": "Bounded_Integer_Coefficient_Policy",
            "ext": "Extended_Number_Policy"}

PREDS = [("classify", "CLASSIFY", False), ("is_nan", "PRED1B", False), ("is_minf", "PRED1B", False), ("is_pinf", "PRED1B", False), ("is_int", "PRED1B", False),
         ("assign_special", "SPECIAL", False), ("sgn", "PRED1", False), ("sgn", "PRED1", True), ("cmp", "PRED2", False), ("cmp", "PRED2", True),
         ("lt", "PRED2B", True), ("le", "PRED2B", True), ("gt", "PRED2B", True), ("ge", "PRED2B", True), ("eq", "PRED2B", True), ("ne", "PRED2B", True)]
OPS = [  # name, arity
 ("assign", "UN"), ("floor", "UN"), ("ceil", "UN"), ("trunc", "UN"), ("neg", "UN"), ("abs", "UN"), ("sqrt", "UN"),
 ("add", "BIN"), ("sub", "BIN"), ("mul", "BIN"), ("div", "BIN"), ("idiv", "BIN"), ("rem", "BIN"),
 ("add_mul", "FMA"), ("sub_mul", "FMA"),
 ("add_2exp", "EXP"), ("sub_2exp", "EXP"), ("mul_2exp", "EXP"), ("div_2exp", "EXP"), ("umod_2exp", "EXP"), ("smod_2exp", "EXP"),
]
HEAVY = {"mul", "div", "idiv", "rem", "sqrt", "add_mul", "sub_mul"}   # division / multiplication circuits: costly at 32/64 bit

def unit_for(tt, pp):
    cxx, w, sg = TYPES[tt]
    return Unit("C11", "int_%s_%s" % (tt, pp), "units/C11/checked_int.cc",
                defs={"VT": '"%s"' % cxx if False else cxx, "VP": POLICIES[pp], "T_W": w, "T_SIGNED": sg},
                roots="re:^(w_|ENC_|POL_)", stubs=["common.c"])

XSTR = "#define XSTR(a) STR(a)\n#define STR(a) #a\n"
DIR_REACH = [("round down", "(dir & 7u) == 0u"), ("round up", "(dir & 7u) == 1u"), ("round ignore", "(dir & 7u) == 6u")]
ALWAYS_EXACT = ("assign", "floor", "ceil", "trunc", "umod_2exp", "smod_2exp", "idiv", "rem", "neg", "abs")

def op_task(u, tt, pp, op, ar, ext, tight=False, prop="C11", timeout=900, bounded=None, extra_pre=None, tag=None):
    w = u.defs["T_W"]
    name = op + ("_ext" if ext else "")
    tu = "uint%d_t" % w
    show = 'printf("  returned %s r=0x%%x\\n", (unsigned)r);' % ("Result code" if ar in ("UN", "BIN", "EXP", "FMA", "SPECIAL", "CLASSIFY") else "value")
    reach = list(DIR_REACH)
    rt = "uint32_t"
    if ar in ("UN", "BIN", "EXP", "FMA"):
        vars = [Var(tu, "to", snapshot=True), Var(tu, "x")]
        if ar in ("BIN", "FMA"): vars.append(Var(tu, "y")); args = "&to, &x, &y, dir"; proto = "T_u*, const T_u*, const T_u*, uint32_t"; xs = ("x", "y", "0")
        elif ar == "UN": args = "&to, &x, dir"; proto = "T_u*, const T_u*, uint32_t"; xs = ("x", "0", "0")
        else: vars.append(Var("uint32_t", "exp")); args = "&to, &x, exp, dir"; proto = "T_u*, const T_u*, uint32_t, uint32_t"; xs = ("x", "0", "exp")
        vars.append(Var("uint32_t", "dir"))
        pre = "PRE(dir, dir_valid(dir)) PRE(operands, C_%s_PRE(%s, %s, %s))" % (name, xs[0], xs[1], xs[2])
        if ar == "FMA": pre += " PRE(accumulator, %s)" % ("x_in_range(to)" if not ext else "pre_muladd_ext(to, x, y, %d)" % (1 if op == "sub_mul" else 0))
        post = "C_%s_POSTS(r, to, to_old, %s, %s, %s, dir)" % (name, xs[0], xs[1], xs[2])
        if op not in ALWAYS_EXACT: reach.append(("inexact or overflow", "r != 1u"))
    elif ar == "SPECIAL":
        vars = [Var(tu, "to", snapshot=True), Var("uint32_t", "c"), Var("uint32_t", "dir")]
        args = "&to, c, dir"; proto = "T_u*, uint32_t, uint32_t"
        pre = "PRE(dir, dir_valid(dir)) PRE(class, C_assign_special_PRE(c))"; post = "C_assign_special_POSTS(r, to, to_old, c, dir)"
    elif ar == "CLASSIFY":
        vars = [Var(tu, "x"), Var("_Bool", "nan"), Var("_Bool", "inf"), Var("_Bool", "sign")]
        args = "&x, nan, inf, sign"; proto = "const T_u*, bool, bool, bool"
        pre = ""; post = "C_classify_POSTS(r, x, nan, inf, sign)"; reach = [("sign asked", "sign"), ("nothing asked", "!nan && !inf && !sign")]
    elif ar in ("PRED1", "PRED1B"):
        vars = [Var(tu, "x")]; args = "&x"; proto = "const T_u*"; rt = "uint32_t" if ar == "PRED1" else "_Bool"
        pre = "PRE(operands, C_%s_PRE(x, 0, 0))" % name; post = "C_%s_POSTS(r, 0, 0, x, 0, 0, 0)" % name; reach = [("answer nonzero", "r != 0")] if not (pp in ("cop", "bic") and op in ("is_nan", "is_minf", "is_pinf")) else []
    elif ar in ("PRED2", "PRED2B"):
        vars = [Var(tu, "x"), Var(tu, "y")]; args = "&x, &y"; proto = "const T_u*, const T_u*"; rt = "uint32_t" if ar == "PRED2" else "_Bool"
        pre = "PRE(operands, C_%s_PRE(x, y, 0))" % name; post = "C_%s_POSTS(r, 0, 0, x, y, 0, 0)" % name; reach = [("answer nonzero", "r != 0"), ("answer zero or other", "r != 1")]
    else: raise ValueError(ar)
    nrt = "bool" if rt == "_Bool" else rt
    native = {"decl": XSTR + "extern %s real_fn(%s) __asm__(XSTR(FN_%s));" % (nrt, proto, name),
              "pre": "  " + pre, "call": "%s r = real_fn(%s)" % (rt, args), "post": post, "show": show}
    defs = {"WITH_TIGHT": 1} if tight else {}
    for v in vars:
        if v.ctype == "_Bool": v.assume = None
    t = Task("%s/%s/%s/%s" % (tt, pp, name, tag or ("tight" if tight else "sem")), u, "FN_" + name, ["C11/ops.h"], vars,
             "%s r = FN_%s(%s)" % (rt, name, args), defs=defs, native=native, bounded=bounded, timeout=timeout, reach=reach,
             group="%s %s" % (tt, pp), harness_pre=("  __CPROVER_assume(%s);" % extra_pre) if extra_pre else "")
    return t

def mixed_tasks(tier):
    """Checked::assign / assign_ext between two different native integer types"""
    pairs = [("s8", "s64"), ("s64", "u64"), ("u8", "s8"), ("s8", "u8"), ("u64", "s64"), ("s32", "s64")] if tier == "quick" else \
            [(a, b) for a in ("s8", "s16", "s32", "s64", "u8", "u16", "u32", "u64") for b in ("s8", "s16", "s32", "s64", "u8", "u16", "u32", "u64") if a != b]
    pols = ["wrd"] if tier == "quick" else ["wrd", "cop"]
    units = []; T = []
    for pp in pols:
        for (tt, ff) in pairs:
            (tc, tw, ts), (fc, fw, fs) = TYPES[tt], TYPES[ff]
            u = Unit("C11", "mix_%s_from_%s_%s" % (tt, ff, pp), "units/C11/assign_mixed.cc",
                     defs={"VT": tc, "VF": fc, "VP": POLICIES[pp], "T_W": tw, "T_SIGNED": ts, "F_W": fw, "F_SIGNED": fs}, roots="re:^(w_|ENC_|POL_)", stubs=["common.c"])
            units.append(u)
            for ext in ((False, True) if pp == "wrd" else (False,)):
                name = "assign_mixed" + ("_ext" if ext else "")
                vars = [Var("uint%d_t" % tw, "to", snapshot=True), Var("uint%d_t" % fw, "x"), Var("uint32_t", "dir")]
                native = {"decl": XSTR + "extern uint32_t real_fn(T_u*, const F_u*, uint32_t) __asm__(XSTR(FN_%s));" % name,
                          "pre": "PRE(dir, dir_valid(dir))" + ("" if ext else " PRE(operand_finite, f_in_range(x))"),
                          "call": "uint32_t r = real_fn(&to, &x, dir)", "post": "C_assign_mixed_POSTS(r, to, to_old, x, dir)",
                          "show": 'printf("  returned Result code r=0x%x\\n", (unsigned)r);'}
                T.append(Task("%s<-%s/%s/%s/sem" % (tt, ff, pp, name), u, "FN_" + name, ["C11/assign_mixed.h"], vars, "uint32_t r = FN_%s(&to, &x, dir)" % name,
                              native=native, group="%s<-%s %s" % (tt, ff, pp), timeout=900,
                              reach=[("representable", "r == 1u")] + ([("not representable", "r != 1u")] if (fw > tw or (fw == tw and fs != ts) or (fs and not ts)) else [])))
    return units, T

def build(tier):
    units = []; tasks = []
    if tier == "quick":
        combos = [("s8", "wrd"), ("s64", "wrd"), ("u8", "wrd"), ("s8", "cop")]
    else:
        combos = [(t, p) for t in ("s8", "s16", "s32", "s64", "u8", "u16", "u32", "u64") for p in ("wrd", "cop")] + [("sll", "wrd"), ("s8", "ext")]
        # Bounded_Integer_Coefficient_Policy only exists in builds configured with native / checked integer coefficients
        # (Coefficient_types.hh); /repo is configured with GMP coefficients, so there is nothing to instantiate it with here
    for (tt, pp) in combos:
        u = unit_for(tt, pp); units.append(u)
        w = TYPES[tt][1]
        for (op, ar) in OPS:
            for ext in (False, True):
                if ext and pp in ("cop", "bic") : continue     # no specials to handle: the ext layer is the native layer
                if w == 64 and not TYPES[tt][2] and op in HEAVY | {"mul_2exp"}: continue   # unsigned 64 bit: exact products need more than the 128-bit spec arithmetic (not covered, stated)
                if (w >= 32 and op in HEAVY) or (tt == "u16" and op in ("div", "idiv", "rem")):   # (the unsigned 16-bit dividers exceed 15 min on the full domain)
                    # wide multiplication / division circuits are beyond every installed SAT back end on the full domain
                    # (DESIGN.md section 2.6): bounded stand-ins, one operand at a time restricted to |v| < 2^B, labelled bounded
                    if ext: continue
                    sg = TYPES[tt][2]
                    # one operand ranges over a fixed set of constants (small, large, both signs, near the limits), the others are arbitrary
                    consts = [1, 2, 3, 7, 10, 114, 1 << 15, (1 << (w - 2)) + 1, (1 << (w - 1)) - 3] + ([0] if op in ("mul", "add_mul", "sub_mul") else [])
                    if sg: consts = consts + [-c for c in consts if c != 0]
                    def among(v): return "(" + " || ".join("(int%d_t)%s == (int%d_t)%dLL" % (w, v, w, c) if sg else "%s == %dULL" % (v, c) for c in consts) + ")"
                    note = "restricted to the constants {%s}" % ", ".join(str(c) for c in consts)
                    if op == "sqrt":
                        tasks.append(op_task(u, tt, pp, op, ar, ext, extra_pre="x < (1ULL << 16)" if not sg else "(int%d_t)x < 65536" % w, tag="bounded-x", bounded={"note": "operand below 2^16"}, timeout=1500))
                        continue
                    if w == 64 and op in ("div", "idiv", "rem"): continue   # 64-bit divider: no back end finishes even for constant divisors (not covered, stated)
                    if w == 64 and op in ("add_mul", "sub_mul") and tier == "quick": continue   # ~13 min each: thorough tier only
                    # (with the FIRST operand constant and the second free, `MAX / y' needs a full divider: does not finish at 32 or 64 bit)
                    tasks.append(op_task(u, tt, pp, op, ar, ext, extra_pre=among("y"), tag="bounded-y", bounded={"note": "second operand " + note + "; first operand and accumulator arbitrary"}, timeout=3400 if w == 64 else 1500))
                    continue
                tasks.append(op_task(u, tt, pp, op, ar, ext, timeout=2700 if (w == 16 and op in HEAVY) else 900))   # 16-bit multipliers / dividers: 2-15 minutes, more on a loaded machine
        for (op, ar, ext) in PREDS:
            tasks.append(op_task(u, tt, pp, op, ar, ext))
    mu, mt = mixed_tasks(tier); units += mu; tasks += mt
    return units, tasks

def main(tier, only=None):
    units, tasks = build(tier)
    if only: tasks = [t for t in tasks if only in t.id]; units = [u for u in units if any(t.unit is u for t in tasks)]
    return run_check("C11", tier, tasks, units, "proof",
                     trusted_base=["clang 14 front end + LLVM mem2reg", "tools/ll2c.py (IR -> C)", "CBMC 6.11 / cadical",
                                   "stubs/common.c: ppl_unreachable() = assert(false)"],
                     extra_assumptions=["floating-point, GMP (mpz/mpq) and string I/O primitives of the checked layer are outside the proof (L1, L3, L4 in DESIGN.md)"],
                     explanation="per-function CBMC code contracts (goto-instrument --dfcc --enforce-contract) on the checked-integer primitives extracted from the current /repo sources")

if __name__ == "__main__":
    import argparse
    ap = argparse.ArgumentParser(); ap.add_argument("--tier", default="quick"); ap.add_argument("--only", default=None)
    a = ap.parse_args()
    sys.exit(main(a.tier, a.only))
