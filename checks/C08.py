"""C08 -- widenings are upper bounds and force convergence (interval layer only: the CC76 step of Box; DESIGN.md section 10.2)."""
import os, sys
sys.path.insert(0, os.path.join(os.path.dirname(os.path.abspath(__file__)), "..", "tools"))
from vlib import *
from C11 import TYPES, XSTR
from C12 import ROOTS, POLS, GHOST, ghost_vars

def unit_for(tt, pol):
    cxx, w, sg = TYPES[tt]
    return Unit("C08", "itvwid_%s_%s" % (tt, pol), "units/C08/interval_widen.cc", defs={"VB": cxx, "VPOL": POLS[pol], "T_W": w, "T_SIGNED": sg},
                roots=ROOTS, stubs=["common.c"], type_aliases={"ITV_T": ("w_add", 0)})

H = ["C08/interval_widen.h"]; ST = ["c12_ghost.c", "c08_ghost.c"]
BOUND = {"unwind": 5, "note": "at most 5 stop points (the number Box::CC76_widening_assign passes); std::lower_bound's binary search unwound with unwinding assertions; interval bounds, flags and stop-point values arbitrary"}

def cc76_task(u, tt, pol):
    gv, pre_h = ghost_vars(u.defs["T_W"])
    vars = [Var("ITV_T", "x", snapshot=True), Var("ITV_T", "y")] + [Var("T_u", "s%d" % k) for k in range(5)] + [Var("uint32_t", "n")] + gv
    setst = " ".join("G_stop[%d] = s%d;" % (k, k) for k in range(5)) + " G_nstop = n;"
    pre = pre_h + "\n  " + setst + "\n  G_to0 = x;"
    native = {"decl": XSTR + GHOST + " T_u G_stop[ST_N]; uint32_t G_nstop;\nextern void real_fn(ITV_T*, const ITV_T*, const T_u*, const T_u*) __asm__(XSTR(FN_cc76));",
              "pre": pre_h + "\n  " + setst + "\n  PRE(wf_x, real_OK(&x)) PRE(wf_y, real_OK(&y)) PRE(y_nonempty, !is_empty_set(&y)) PRE(x_contains_y, set_contains(&x, &y)) PRE(stop_points, G_nstop <= ST_N && stops_sorted())",
              "call": "real_fn(&x, (const ITV_T*)&y, G_stop, G_stop + G_nstop)", "post": "C_cc76_POSTS((&x), (&x_old), (&y))",
              "show": 'printf("  certificate: y %d -> result %d\\n", cert(&y), cert(&x));'}
    return Task("%s/%s/CC76_widening_assign" % (tt, pol), u, "FN_cc76", H, vars, "FN_cc76(&x, &y, G_stop, G_stop + G_nstop)", defs={"GHOST_RANGE": "((ex_t)%d)" % (1 << (u.defs["T_W"] + 1))},
                native=native, harness_pre=pre, timeout=1800, bounded=BOUND, group="%s %s" % (tt, pol), stubs=ST,
                reach=[("upper bound widened to a stop point", "!hi_inf(&x) && hi(&x) != hi(&G_to0)"), ("upper bound widened to infinity", "hi_inf(&x) && !hi_inf(&G_to0)"),
                       ("lower bound widened to a stop point", "!lo_inf(&x) && lo(&x) != lo(&G_to0)"), ("stationary", "set_eq(&x, &y)")])

def box_tasks(tier):
    """Box<ITV>::CC76_widening_assign(y, tp) on the box unit of check C03 (dimension <= 2)"""
    import C03
    units = []; T = []
    for (tt, pol) in ([("s8", "nat"), ("s8", "rat")] if tier == "quick" else [(t, p) for t in ("s8", "s32") for p in ("nat", "rat")]):
        u = C03.box_unit(tt, pol, prop="C08"); units.append(u)
        for d in (1, 2):
            bound = {"unwind": max(d + 2, 5), "note": "space dimension %d; interval bounds, special/open bits, status flags, token count and ghost point arbitrary; the function's own 5-entry stop-point table (contents only assumed sorted); loops unwound with unwinding assertions" % d}
            kw = dict(bounded=bound, timeout=2400, object_bits=9, defs={"BOX_D": d, "GHOST_RANGE": "((ex_t)%d)" % (1 << (u.defs["T_W"] + 1))}, split_post=True,
                      stubs=["c12_ghost.c", "c17_ghost.c", "c03_box.c"], group="box %s %s" % (tt, pol))
            pre = C03.BOX_SETUP + "\n  G_fy0 = fy; G_tokens = tok; G_tokens0 = tok; G_plain_changed = 0;\n  __CPROVER_assume(box_contains_sets());"
            npre = "\n  G_fy0 = fy; G_tokens = tok; G_tokens0 = tok; G_plain_changed = 0;\n  PRE(y_in_x, box_contains_sets()) PRE(stop_points_sorted, stops_sorted())"
            nat1 = C03.box_native("FN_b_cc76", "void", "BOX_T*, BOX_T*, uint32_t*", "uint32_t *tp = (with_tp ? &G_tokens : (uint32_t *)0); real_fn(x, y, tp)", "C_b_cc76_POSTS(0)",
                                  extra_pre=npre + " PRE(tokens, !with_tp || tok == 0)")
            nat2 = C03.box_native("FN_b_cc76", "void", "BOX_T*, BOX_T*, uint32_t*",
                                  "real_fn(x, y, (uint32_t *)0); G_plain_changed = !box_same_as_entry(&G_bx);\n"
                                  "  G_xs[0] = G_xs0[0]; G_xs[1] = G_xs0[1]; BOX_FLAGS(&G_bx) = G_fx0; G_ys[0] = ys0; G_ys[1] = ys1; BOX_FLAGS(&G_by) = G_fy0;\n"
                                  "  uint32_t *tp = &G_tokens; real_fn(x, y, tp)", "C_b_cc76_POSTS(0)", extra_pre=npre + " PRE(tokens, tok > 0)")
            T.append(Task("box/%s/%s/CC76_widening_assign/plain/dim%d" % (tt, pol, d), u, "FN_b_cc76", ["C08/box_widen.h"], C03.box_vars() + [Var("uint32_t", "tok"), Var("_Bool", "with_tp")],
                          "__CPROVER_assume(!with_tp || tok == 0); FN_b_cc76(&G_bx, &G_by, with_tp ? &G_tokens : (uint32_t *)0)", harness_pre=pre,
                          reach=[("widened", "!box_same_as_entry(&G_bx)"), ("stationary", "!G_emptyY0 && ALLK(set_eq(&G_xs[0], &G_ys[0]), set_eq(&G_xs[1], &G_ys[1]))"),
                                 ("zero tokens", "with_tp")], native=nat1, **kw))
            two = ("FN_b_cc76(&G_bx, &G_by, (uint32_t *)0);\n  G_plain_changed = !box_same_as_entry(&G_bx);\n"
                   "  G_xs[0] = G_xs0[0]; G_xs[1] = G_xs0[1]; BOX_FLAGS(&G_bx) = G_fx0; G_ys[0] = ys0; G_ys[1] = ys1; BOX_FLAGS(&G_by) = G_fy0;\n"
                   "  __CPROVER_assume(tok > 0);\n  w_b_cc76(&G_bx, &G_by, &G_tokens)")
            T.append(Task("box/%s/%s/CC76_widening_assign/tokens/dim%d" % (tt, pol, d), u, "w_b_cc76", ["C08/box_widen.h"], C03.box_vars() + [Var("uint32_t", "tok")],
                          two, harness_pre=pre, reach=[("token consumed", "G_tokens == G_tokens0 - 1"), ("token kept", "G_tokens == G_tokens0")], native=nat2, **kw))
    return units, T

def bds_tasks(tier):
    """BD_Shape<int8_t>::CC76_extrapolation_assign (no tokens): the upper-bound clause, on the BD-shape unit of check C03"""
    import C03
    cxx, w, sg = TYPES["s8"]
    u = Unit("C08", "bds_s8", "units/C03/bds.cc", defs={"VT": cxx, "T_W": w, "T_SIGNED": sg}, roots="re:^(w_(cc76|closure)$|ST_|ENC_|POL_)",
             cut=["re:BD_Shape<.*>::throw_", "re:Bit_Matrix::", "re:operator==\\(.*Bit_Matrix"], stubs=["common.c", "c03.c"])
    T = []
    for d in (() if tier == "quick" else (1,)):      # ~5-13 minutes (two closures inside): thorough tier only; dimension 2 does not fit in memory
        n = d + 1
        bound = {"unwind": max(n + 1, 4), "note": "space dimension %d (matrix order %d), at most 3 stop points; matrix contents, status flags, stop-point values and ghost point arbitrary; loops unwound with unwinding assertions" % (d, n)}
        T.append(Task("bds/s8/CC76_extrapolation_assign/dim%d" % d, u, "FN_cc76", ["C08/bds_widen.h"], [Var("uint8_t", "b0"), Var("uint8_t", "b1"), Var("uint8_t", "b2"), Var("uint32_t", "nb")],
                      "FN_cc76(&G_X.s, &G_Y.s, (CN_T *)G_bstop, (CN_T *)(G_bstop + G_nbstop), (uint32_t *)0)", harness_pre=C03.setup(True) + "\n  G_bstop[0] = b0; G_bstop[1] = b1; G_bstop[2] = b2; G_nbstop = nb;",
                      bounded=bound, timeout=3000, object_bits=9, defs={"N": n, "PT_RANGE": "((int64_t)1 << %d)" % (w + 2)}, split_post=True, mem_gb=40,
                      group="bd shape s8", reach=[("point in x", "G_satX0"), ("a bound was extrapolated", "G_satX0 && !G_satY0")]))
    return ([u] if T else []), T

def build(tier):
    units = []; tasks = []
    combos = [("s8", "nat"), ("s8", "rat")] if tier == "quick" else [(t, p) for t in ("s8", "s16", "s32", "s64", "u8") for p in ("nat", "rat")]
    for (tt, pol) in combos:
        u = unit_for(tt, pol); units.append(u); tasks.append(cc76_task(u, tt, pol))
    bu, bt = box_tasks(tier); units += bu; tasks += bt
    su, st = bds_tasks(tier); units += su; tasks += st
    return units, tasks

def main(tier, only=None):
    units, tasks = build(tier)
    if only: tasks = [t for t in tasks if only in t.id]; units = [u for u in units if any(t.unit is u for t in tasks)]
    return run_check("C08", tier, tasks, units, "other",
                     trusted_base=["clang 14 front end + LLVM mem2reg", "tools/ll2c.py (IR -> C)", "CBMC 6.11 / cadical", "stubs/common.c", "libstdc++ std::lower_bound as compiled by clang (extracted and checked with the function, not assumed)"],
                     extra_assumptions=["only the interval layer of C08 is under contract: Interval<native integer, Info>::CC76_widening_assign(y, first, last)",
                                        "the Box-level loop and token protocol, and every other widening (polyhedra, BD shapes, octagons, grids, powersets) are outside the check",
                                        "finite convergence follows from the certificate clause by well-foundedness of the naturals (stated, not machine-checked)",
                                        "the upper-bound clause is stated at near-standard ghost points (A6 of C12)"],
                     explanation="CBMC code contract on the CC76 interval widening extracted from the current /repo sources; bounded in the number of stop points only")

if __name__ == "__main__":
    import argparse
    ap = argparse.ArgumentParser(); ap.add_argument("--tier", default="quick"); ap.add_argument("--only", default=None)
    a = ap.parse_args()
    sys.exit(main(a.tier, a.only))
