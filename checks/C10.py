"""C10 -- products denote the intersection of their components; reductions never lose it (DESIGN.md section 10.2)."""
import os, sys
sys.path.insert(0, os.path.join(os.path.dirname(os.path.abspath(__file__)), "..", "tools"))
from vlib import *
from C11 import TYPES
from C12 import POLS

REDS = {"smash": 1, "none": 2}
ROOTS = "re:^(w_p_|w_OK$|w_add$|w_b_OK$|ENC_|POL_|LOWER_|UPPER_|STORE_|MAY_|BST_)"
def unit_for(tt, pol, red):
    cxx, w, sg = TYPES[tt]
    return Unit("C10", "prod_%s_%s_%s" % (tt, pol, red), "units/C10/product.cc", defs={"VB": cxx, "VPOL": POLS[pol], "T_W": w, "T_SIGNED": sg, "VRED": REDS[red]},
                roots=ROOTS, cut=["re:Box<.*>::throw_", "re:Partially_Reduced_Product<.*>::throw_"], stubs=["common.c"],
                type_aliases={"ITV_T": ("w_add", 0), "BOX_T": ("w_b_OK", 0), "PROD_T": ("w_p_OK", 0)})

def pvars():
    V = []
    for c in ("x1", "x2", "y1", "y2"):
        V += [Var("ITV_T", c + "a"), Var("ITV_T", c + "b"), Var("uint32_t", "f" + c)]
    return V + [Var("_Bool", "rx"), Var("_Bool", "ry"), Var("int32_t", "pn0"), Var("int32_t", "pn1"), Var("int8_t", "ps0"), Var("int8_t", "ps1")]
def comp(ptr, seq, box, a, b, f):
    return ("  %s = (ITV_T *)malloc(sizeof(ITV_T) * BOX_N); __CPROVER_assume(%s != 0); %s[0] = %s; %s[1] = %s;\n"
            "  BOX_BEGIN(%s) = %s; BOX_END(%s) = %s + BOX_D; BOX_CAP(%s) = %s + BOX_D; BOX_FLAGS(%s) = %s;\n") % (seq, seq, seq, a, seq, b, box, seq, box, seq, box, seq, box, f)
SETUP = (comp("", "G_x1s", "P_D1(&G_px)", "x1a", "x1b", "fx1") + comp("", "G_x2s", "P_D2(&G_px)", "x2a", "x2b", "fx2") +
         comp("", "G_y1s", "P_D1(&G_py)", "y1a", "y1b", "fy1") + comp("", "G_y2s", "P_D2(&G_py)", "y2a", "y2b", "fy2") +
         """  P_REDUCED(&G_px) = rx; P_REDUCED(&G_py) = ry;
  G_pn[0] = pn0; G_pn[1] = pn1; G_ps[0] = ps0; G_ps[1] = ps1;
  __CPROVER_assume(prod_wf_entry(&G_px, G_x1s, G_x2s) && prod_wf_entry(&G_py, G_y1s, G_y2s) && pt_ok());
  G_sat_x1_0 = bsat(P_D1(&G_px)); G_sat_x2_0 = bsat(P_D2(&G_px)); G_sat_y1_0 = bsat(P_D1(&G_py)); G_sat_y2_0 = bsat(P_D2(&G_py));
  G_psatX0 = G_sat_x1_0 && G_sat_x2_0; G_psatY0 = G_sat_y1_0 && G_sat_y2_0;""")

NATIVE_DECL = """
#define XSTR2(a) #a
#define XSTR(a) XSTR2(a)
#include <cstdlib>
ex_t G_an, G_bn; int G_as, G_bs; ITV_T G_to0; int64_t G_z;
ITV_T G_xs[BOX_N], G_ys[BOX_N]; BOX_T G_bx, G_by; ex_t G_pn[BOX_N]; int G_ps[BOX_N]; ITV_T G_xs0[BOX_N]; uint32_t G_fx0;
int G_satX0, G_satY0, G_emptyX0, G_emptyY0;
PROD_T G_px, G_py; ITV_T *G_x1s, *G_x2s, *G_y1s, *G_y2s; int G_psatX0, G_psatY0, G_sat_x1_0, G_sat_x2_0, G_sat_y1_0, G_sat_y2_0;
"""
def native(op, ret, two):
    """native replay: the four component boxes are rebuilt on the heap around the counterexample values and the real function is called"""
    pre = re.sub(r'__CPROVER_assume\((\w+ != 0)\);', r'', SETUP)
    pre = re.sub(r'__CPROVER_assume\((.*)\);', r'PRE(operands_well_formed, \1)', pre) + "\n  PROD_T *x = &G_px, *y = &G_py;"
    proto = "PROD_T*, PROD_T*" if two else "PROD_T*"; args = "x, y" if two else "x"
    return {"decl": NATIVE_DECL + "extern %s real_fn(%s) __asm__(XSTR(FN_p_%s));" % (ret, proto, op), "pre": pre,
            "call": ("real_fn(%s)" if ret == "void" else "bool r = real_fn(%s)") % args, "post": "C_p_%s_POSTS(%s)" % (op, "0" if ret == "void" else "r"),
            "show": 'printf("  reduced flags: x=%d y=%d\\n", (int)P_REDUCED(&G_px), (int)P_REDUCED(&G_py));'}

OPS1 = [("reduce", "_Bool r = "), ("is_empty", "_Bool r = "), ("is_bounded", "_Bool r = "), ("topological_closure", "")]
OPS2 = [("contains", "_Bool r = "), ("is_disjoint_from", "_Bool r = "), ("intersection", ""), ("upper_bound", ""), ("upper_bound_if_exact", "_Bool r = "), ("difference", "")]

def build(tier):
    units = []; T = []
    combos = [("s8", "rat", "smash"), ("s8", "rat", "none")] if tier == "quick" else [("s8", p, r) for p in ("nat", "rat") for r in ("smash", "none")]
    for (tt, pol, red) in combos:
        u = unit_for(tt, pol, red); units.append(u)
        for d in ([1] if tier == "quick" else [1, 2]):
            bound = {"unwind": d + 2, "note": "space dimension %d; the four component boxes (interval bounds, special/open bits, status flags), the reduced flags and the ghost point arbitrary; loops unwound with unwinding assertions" % d}
            kw = dict(bounded=bound, timeout=2400, object_bits=11, defs={"BOX_D": d, "GHOST_RANGE": "((ex_t)%d)" % (1 << (u.defs["T_W"] + 1))}, split_post=False,
                      stubs=["c12_ghost.c", "c17_ghost.c", "c10_prod.c"], harness_pre=SETUP, group="product %s %s %s" % (tt, pol, red), mem_gb=20)
            for (op, lhs) in OPS1:
                T.append(Task("%s/%s/%s/%s/dim%d" % (tt, pol, red, op, d), u, "FN_p_" + op, ["C10/product.h"], pvars(), "%sFN_p_%s(&G_px)" % (lhs, op), native=native(op, "bool" if lhs else "void", False),
                              reach=[("point in the intersection", "G_psatX0"), ("components inconsistent", "!G_psatX0 && G_sat_x1_0")], **kw))
            for (op, lhs) in OPS2:
                # the joins of products are the largest queries (two box joins with vector assignment, plus the reductions):
                # only upper_bound_assign under No_Reduction fits in memory
                if op == "upper_bound_if_exact" or (op == "upper_bound" and red == "smash"): continue   # exhaust 40 GB (tried in the thorough tier: undecided); contracts kept, nothing claimed
                if d == 2 and op in ("upper_bound", "upper_bound_if_exact", "difference"): continue    # beyond 40 GB in dimension 2
                kw2 = dict(kw, mem_gb=40) if op in ("upper_bound", "upper_bound_if_exact", "difference") else kw
                T.append(Task("%s/%s/%s/%s/dim%d" % (tt, pol, red, op, d), u, "FN_p_" + op, ["C10/product.h"], pvars(), "%sFN_p_%s(&G_px, &G_py)" % (lhs, op), native=native(op, "bool" if lhs else "void", True),
                              reach=[("point in both", "G_psatX0 && G_psatY0"), ("point in x only", "G_psatX0 && !G_psatY0")], **kw2))
    return units, T

def main(tier, only=None):
    units, tasks = build(tier)
    if only: tasks = [t for t in tasks if only in t.id]; units = [u for u in units if any(t.unit is u for t in tasks)]
    return run_check("C10", tier, tasks, units, "other",
                     trusted_base=["clang 14 front end + LLVM mem2reg", "tools/ll2c.py (IR -> C)", "CBMC 6.11 / cadical", "stubs/common.c", "stubs/c10_prod.c (allocation never fails; check_space_dimension_overflow)"],
                     extra_assumptions=["only products of two boxes over native integer bounds, with the Smash and the No reduction: the Constraints, Congruences and Shape_Preserving reductions and every operation taking a Constraint / Congruence / Linear_Expression are GMP code and are NOT covered",
                                        "box status: the UNIVERSE bit is assumed clear (no Box code sets it)"],
                     max_workers=5,
                     explanation="bounded-dimension CBMC code contracts with a ghost point on Partially_Reduced_Product<Box, Box, R> extracted from the real headers; both components and the reduction are the real code")

if __name__ == "__main__":
    import argparse
    ap = argparse.ArgumentParser(); ap.add_argument("--tier", default="quick"); ap.add_argument("--only", default=None)
    a = ap.parse_args()
    sys.exit(main(a.tier, a.only))
