"""C17 -- integer-aware operators never discard an integer point (interval layer only; DESIGN.md section 10.2)."""
import os, sys
sys.path.insert(0, os.path.join(os.path.dirname(os.path.abspath(__file__)), "..", "tools"))
from vlib import *
from C11 import TYPES, XSTR
from C12 import ROOTS, POLS, GHOST, ghost_vars

def unit_for(tt, pol):
    cxx, w, sg = TYPES[tt]
    return Unit("C17", "itvint_%s_%s" % (tt, pol), "units/C17/interval_int.cc", defs={"VB": cxx, "VPOL": POLS[pol], "T_W": w, "T_SIGNED": sg},
                roots=ROOTS, stubs=["common.c"], type_aliases={"ITV_T": ("w_add", 0)})

H = ["C17/interval_int.h"]; ST = ["c12_ghost.c", "c17_ghost.c"]
GH17 = GHOST + " int64_t G_z;"
def defs(u): return {"GHOST_RANGE": "((ex_t)%d)" % (1 << (u.defs["T_W"] + 1))}

def wrap_task(u, tt, pol, width=None):
    """to.wrap_assign(w, r, ref); one task per width keeps each query small"""
    vars = [Var("ITV_T", "to", snapshot=True), Var("uint32_t", "r"), Var("ITV_T", "ref", snapshot=True), Var("int64_t", "z")]
    pre = "  G_z = z; G_to0 = to;"
    native = {"decl": XSTR + GH17 + "\nextern uint32_t real_fn(ITV_T*, uint32_t, uint32_t, const ITV_T*) __asm__(XSTR(FN_wrap));\nstatic const uint32_t w = %d;" % width,
              "pre": "  G_z = z;\n  PRE(wf_to, real_OK(&to)) PRE(wf_ref, real_OK(&ref)) PRE(rep, r <= 1u)",
              "call": "uint32_t res = real_fn(&to, w, r, (const ITV_T*)&ref)", "post": "C_wrap_POSTS(res, (&to), (&to_old), w, r, (&ref_old))",
              "show": 'printf("  I_Result=0x%x  z=%lld  wrap(z)=%lld\\n", res, (long long)z, (long long)wrap_val(z, w, r));'}
    return Task("%s/%s/wrap_assign/w%d" % (tt, pol, width), u, "FN_wrap", H, vars, "uint32_t res = FN_wrap(&to, %du, r, &ref)" % width,
                defs=defs(u), native=native, harness_pre=pre, timeout=1800, group="%s %s" % (tt, pol), stubs=ST,
                reach=[("receiver has the integer", "mem_wide(&G_to0, G_z)")] +
                      # for w = 128 the 128-bit ghost arithmetic only covers the values that wrapping leaves unchanged
                      ([("wrapped value differs", "mem_wide(&G_to0, G_z) && wrap_val(G_z, %du, r) != G_z" % width)] if width < 128 else []) +
                      [("refinement admits the wrapped value", "mem_wide(&G_to0, G_z) && r <= 1u && mem_wide(&ref, wrap_val(G_z, %du, r))" % width)])

def drop_task(u, tt, pol):
    gv, pre_h = ghost_vars(u.defs["T_W"])
    vars = [Var("ITV_T", "to", snapshot=True), Var("int64_t", "z")] + gv
    pre = pre_h + "\n  G_z = z; G_to0 = to;"
    native = {"decl": XSTR + GH17 + "\nextern void real_fn(ITV_T*) __asm__(XSTR(FN_drop));",
              "pre": pre_h + "\n  G_z = z;\n  PRE(wf_to, real_OK(&to))", "call": "real_fn(&to)", "post": "C_drop_POSTS(0, (&to), (&to_old))", "show": ""}
    return Task("%s/%s/drop_some_non_integer_points" % (tt, pol), u, "FN_drop", H, vars, "FN_drop(&to)", defs=defs(u), native=native, harness_pre=pre,
                timeout=900, group="%s %s" % (tt, pol), stubs=ST,
                reach=[("receiver has the integer", "mem_wide(&G_to0, G_z)"), ("receiver nonempty", "!is_empty_set(&G_to0)")])

def cip_task(u, tt, pol):
    vars = [Var("ITV_T", "x"), Var("int64_t", "z")]
    native = {"decl": XSTR + GH17 + "\nextern bool real_fn(const ITV_T*) __asm__(XSTR(FN_contains_integer_point));",
              "pre": "  G_z = z;\n  PRE(wf_x, real_OK(&x))", "call": "bool res = real_fn(&x)", "post": "C_contains_integer_point_POSTS(res, (&x))",
              "show": 'printf("  answer=%d\\n", (int)res);'}
    return Task("%s/%s/contains_integer_point" % (tt, pol), u, "FN_contains_integer_point", H, vars, "_Bool res = FN_contains_integer_point(&x)",
                defs=defs(u), native=native, harness_pre="  G_z = z;", timeout=900, group="%s %s" % (tt, pol), stubs=ST,
                reach=[("answer true", "res"), ("answer false", "!res")])

def box_cip_tasks(tier):
    """Box<ITV>::contains_integer_point() on the box unit of check C03 (dimension <= 2: bounded)"""
    import C03
    units = []; T = []
    for (tt, pol) in ([("s8", "nat"), ("s8", "rat")] if tier == "quick" else [(t, p) for t in ("s8", "s32") for p in ("nat", "rat")]):
        u = C03.box_unit(tt, pol, prop="C17"); units.append(u)
        for d in (1, 2):
            bound = {"unwind": d + 2, "note": "space dimension %d; interval bounds, special/open bits and status flags arbitrary; loops unwound with unwinding assertions" % d}
            T.append(Task("box/%s/%s/contains_integer_point/dim%d" % (tt, pol, d), u, "FN_b_contains_integer_point", ["C17/box_int.h"], C03.box_vars(),
                          "_Bool r = FN_b_contains_integer_point(&G_bx)", bounded=bound,
                          native=C03.box_native("FN_b_contains_integer_point", "bool", "BOX_T*", "bool r = real_fn(x)", "C_b_contains_integer_point_POSTS(r)"), timeout=1800, object_bits=9,
                          defs={"BOX_D": d, "GHOST_RANGE": "((ex_t)%d)" % (1 << (u.defs["T_W"] + 1))}, split_post=True,
                          stubs=["c12_ghost.c", "c17_ghost.c", "c03_box.c"], harness_pre=C03.BOX_SETUP, group="box %s %s" % (tt, pol),
                          reach=[("answer true", "r"), ("answer false on an unmarked box", "!r && !(fx & BST_EMPTY)")]))
    return units, T

def build(tier):
    units = []; tasks = []
    combos = [("s8", "nat"), ("s8", "rat"), ("s16", "rat")] if tier == "quick" else [(t, p) for t in ("s8", "s16", "s32", "s64", "u8") for p in ("nat", "rat")]
    for (tt, pol) in combos:
        u = unit_for(tt, pol); units.append(u)
        for width in (8, 16, 32, 64, 128): tasks.append(wrap_task(u, tt, pol, width))
        tasks.append(drop_task(u, tt, pol)); tasks.append(cip_task(u, tt, pol))
    bu, bt = box_cip_tasks(tier); units += bu; tasks += bt
    return units, tasks

def main(tier, only=None):
    units, tasks = build(tier)
    if only: tasks = [t for t in tasks if only in t.id]; units = [u for u in units if any(t.unit is u for t in tasks)]
    return run_check("C17", tier, tasks, units, "proof",
                     trusted_base=["clang 14 front end + LLVM mem2reg", "tools/ll2c.py (IR -> C)", "CBMC 6.11 / cadical", "stubs/common.c"],
                     extra_assumptions=["only the interval layer of C17 is under contract: Interval<native integer, Info>::wrap_assign (the OVERFLOW_WRAPS step of Box::wrap_assign), drop_some_non_integer_points, contains_integer_point",
                                        "Box::wrap_assign's own loop and guard extraction (Variables_Set, Constraint_System: GMP and std::map), the generic wrap_assign of wrap_assign.hh, and the polyhedron, grid, BD-shape, octagon, powerset and product versions are outside the proof",
                                        "the subset clause of drop_some_non_integer_points is stated at near-standard ghost points (A6 of C12)"],
                     explanation="per-function CBMC code contracts on the integer-aware Interval operations extracted from the current /repo sources; a ghost integer z ranges over all 64-bit values")

if __name__ == "__main__":
    import argparse
    ap = argparse.ArgumentParser(); ap.add_argument("--tier", default="quick"); ap.add_argument("--only", default=None)
    a = ap.parse_args()
    sys.exit(main(a.tier, a.only))
