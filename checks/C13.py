"""C13 -- value semantics (narrow: copy-on-write handle + aliased arguments; DESIGN.md section 5, C13)."""
import os, sys
sys.path.insert(0, os.path.join(os.path.dirname(os.path.abspath(__file__)), "..", "tools"))
from vlib import *
import C11 as c11

def det_unit():
    return Unit("C13", "determinate", "units/C13/determinate.cc", roots="re:^(w_|G_)", stubs=["common.c", "c13_new.c"])

# sharing patterns: which representation each of x, y, z sits on; ysame: y is the same object as x
PATTERNS = {"distinct": (0, 1, 1), "x_shares_y": (0, 0, 1), "x_shares_z": (0, 1, 0), "all_share": (0, 0, 0)}
def det_setup(pat):
    rx, ry, rz = PATTERNS[pat]
    return ("  G_x.f0 = &G_rep[%d]; G_y.f0 = &G_rep[%d]; G_z.f0 = &G_rep[%d];\n" % (rx, ry, rz) +
            "  G_rep[0].f1.f0 = v0; G_rep[1].f1.f0 = v1; G_extra[0] = e0; G_extra[1] = e1;\n"
            "  G_rep[0].f0 = owners(&G_rep[0]) + e0; G_rep[1].f0 = owners(&G_rep[1]) + e1; G_copies = cp; G_destroyed = ds;\n"
            "  __CPROVER_assume(cp < 1000 && ds < 1000);\n  d_snapshot();")
def det_vars(): return [Var("uint64_t", "v0"), Var("uint64_t", "v1"), Var("uint64_t", "e0"), Var("uint64_t", "e1"), Var("uint64_t", "cp"), Var("uint64_t", "ds")]

def det_tasks(u):
    H = ["C13/determinate.h"]; T = []
    def add(name, fn, call, pats, reach=()):
        for pat in pats:
            rr = [r for r in reach if not (r[0] in ("last owner leaves", "already exclusive") and pat != "distinct")]
            T.append(Task("determinate/%s/%s" % (name, pat), u, fn, H, det_vars(), call, harness_pre=det_setup(pat), reach=rr, timeout=600))
    allp = list(PATTERNS)
    # copy construction into the (raw) storage of z: z must not count as an owner beforehand
    for pat in ("distinct", "x_shares_y"):
        T.append(Task("determinate/copy_ctor/%s" % pat, u, "FN_copy_ctor", H, det_vars(), "FN_copy_ctor(&G_z, &G_y)",
                      harness_pre=det_setup(pat).replace("G_z.f0 = &G_rep[1];", "G_z.f0 = &G_rep[1];").replace("  d_snapshot();", "  G_z.f0 = &G_rep[2]; G_rep[2].f0 = 1; G_rep[0].f0 = owners(&G_rep[0]) + e0; G_rep[1].f0 = owners(&G_rep[1]) + e1;\n  d_snapshot();"), timeout=600))
    add("dtor", "FN_dtor", "FN_dtor(&G_x)", allp, [("last owner leaves", "G_deleted[0] == 1"), ("still referenced", "G_deleted[0] == 0")])
    add("assign", "FN_assign", "D_T *r = FN_assign(&G_x, &G_y)", allp)
    add("self_assign", "FN_assign", "D_T *r = FN_assign(&G_x, &G_x)", ["distinct", "x_shares_z"])
    add("m_swap", "FN_m_swap", "FN_m_swap(&G_x, &G_y)", allp)
    add("self_swap", "FN_m_swap", "FN_m_swap(&G_x, &G_x)", ["distinct", "x_shares_z"])
    add("mutate", "FN_mutate", "FN_mutate(&G_x)", allp, [("copy on write", "G_new_calls == 1"), ("already exclusive", "G_new_calls == 0")])
    add("pointset", "FN_pointset", "VSET_T *r = FN_pointset(&G_x)", allp)
    add("upper_bound_assign", "FN_upper_bound_assign", "FN_upper_bound_assign(&G_x, &G_y)", allp)
    add("upper_bound_assign_self", "FN_upper_bound_assign", "FN_upper_bound_assign(&G_x, &G_x)", ["distinct", "x_shares_z"])
    return T

ALIAS = {"BIN": [("to_is_x", "&x, &x, &y, dir", "x"), ("to_is_y", "&y, &x, &y, dir", "y"), ("x_is_y", "&to, &x, &x, dir", None), ("all_same", "&x, &x, &x, dir", "x")],
         "FMA": [("to_is_x", "&x, &x, &y, dir", "x"), ("x_is_y", "&to, &x, &x, dir", None), ("all_same", "&x, &x, &x, dir", "x")],
         "UN": [("to_is_x", "&x, &x, dir", "x")], "EXP": [("to_is_x", "&x, &x, exp, dir", "x")]}
def alias_tasks(units, tier):
    """every C11 obligation again with aliased arguments: the contract speaks about ENTRY values (OLD(*x)), so the
       same clauses must hold; a refutation that occurs only here is a C13 (aliasing) violation"""
    T = []
    combos = [("s8", "wrd"), ("s64", "wrd")] if tier == "quick" else [("s8", "wrd"), ("s16", "wrd"), ("s32", "wrd"), ("s64", "wrd"), ("u8", "wrd"), ("s8", "cop")]
    for (tt, pp) in combos:
        u = c11.unit_for(tt, pp); u.prop = "C13"; u.dir = os.path.join(BUILD, "C13", "units", u.name); units.append(u)
        w = c11.TYPES[tt][1]
        for (op, ar) in c11.OPS:
            if w >= 16 and op in c11.HEAVY: continue      # (16-bit and wider multipliers / dividers: minutes to hours each; the 8-bit variants carry the aliasing argument)
            for ext in (False, True):
                if ext and pp in ("cop", "bic"): continue
                for (tag, args, dest) in ALIAS.get(ar, []):
                    t = c11.op_task(u, tt, pp, op, ar, ext, tag="alias-" + tag)
                    name = op + ("_ext" if ext else "")
                    t.call = "uint32_t r = FN_%s(%s)" % (name, args)
                    t.native = None   # refutations are reported with the counterexample state; the C11 replay assumes separate objects
                    t.reach = [("normal return", "1")]
                    T.append(t)
    return T


import C12 as c12
def itv_alias_tasks(units, tier):
    """C12's interval contracts with the receiver aliased to an operand: x.op(x, y), x.op(y, x), x.op(x, x)"""
    T = []
    combos = [("s8", "nat")] if tier == "quick" else [("s8", "nat"), ("s8", "rat")]
    for (tt, pol) in combos:
        u = c12.unit_for(tt, pol); u.prop = "C13"; u.dir = os.path.join(BUILD, "C13", "units", u.name); units.append(u)
        w = u.defs["T_W"]
        def mk(op, nargs, mode, case=None):
            t = c12.itv_task(u, tt, pol, op, nargs, case=case)
            t.id = "interval-alias/%s/%s/%s/%s%s" % (tt, pol, op, mode, ("/" + case[0] + "-" + case[1]) if case else "")
            t.defs = dict(t.defs); t.defs["ALIAS_VARIANT"] = 1
            t.native = None
            snap = {"to_is_x": "G_x0 = to; G_y0 = y;", "to_is_y": "G_x0 = x; G_y0 = to;", "all_same": "G_x0 = to; G_y0 = to;", "to_is_x1": "G_x0 = to;"}[mode]
            args = {"to_is_x": "&to, &to, &y", "to_is_y": "&to, &x, &to", "all_same": "&to, &to, &to", "to_is_x1": "&to, &to"}[mode]
            pre = t.harness_pre
            if case:   # the sign configuration is a property of the ENTRY values
                pre = pre.replace("(&x)", "(&G_x0)").replace("(&y)", "(&G_y0)")
            t.harness_pre = "  " + snap + "\n" + pre
            t.call = "uint32_t r = FN_%s(%s)" % (op, args)
            t.reach = [("operands nonempty", "!is_empty_set(&G_x0)")]
            return t
        T.append(mk("neg", 1, "to_is_x1"))
        for op in ("add", "sub"):
            for mode in ("to_is_x", "to_is_y", "all_same"): T.append(mk(op, 2, mode))
        for op in ("mul", "div"):
            for mode in ("to_is_x", "to_is_y"):
                for cx in ("pos", "neg", "mix"):
                    for cy in ("pos", "neg", "mix"):
                        if tier == "quick" and mode == "to_is_y" and not (cx == cy): continue
                        T.append(mk(op, 2, mode, case=(cx, cy)))
            for c in ("pos", "neg", "mix"): T.append(mk(op, 2, "all_same", case=(c, c)))
        for op in ("join2", "intersect2", "difference2"):
            for mode in ("to_is_x", "to_is_y", "all_same"): T.append(mk(op, 2, mode))
    return T

import C03 as c03
def box_value_tasks(units, tier):
    """boxes are values: copy construction / assignment / swap give independent objects, and the binary box operations
       accept the receiver itself as their argument (the C03 soundness clauses with y aliased to x)"""
    T = []
    for (tt, pol) in ([("s8", "rat")] if tier == "quick" else [("s8", "nat"), ("s8", "rat")]):
        u = c03.box_unit(tt, pol, prop="C13"); units.append(u)
        for d in ((2,) if tier == "quick" else (1, 2)):
            bound = {"unwind": d + 2, "note": "space dimension %d; interval contents and status flags arbitrary; libstdc++ copy loops unwound with unwinding assertions" % d}
            kw = dict(bounded=bound, timeout=1800, object_bits=9, defs={"BOX_D": d, "GHOST_RANGE": "((ex_t)%d)" % (1 << (u.defs["T_W"] + 1))}, split_post=True,
                      stubs=["c12_ghost.c", "c17_ghost.c", "c03_box.c"], group="box value %s %s" % (tt, pol))
            pre = c03.BOX_SETUP + "\n  G_ys0[0] = G_ys[0]; G_ys0[1] = G_ys[1]; G_fy0v = fy;"
            T.append(Task("box/%s/%s/copy_ctor/dim%d" % (tt, pol, d), u, "FN_b_copy", ["C13/box_value.h"], c03.box_vars() + [Var("uint32_t", "cc")], "FN_b_copy(&G_bz, &G_by, cc)", harness_pre=pre, **kw))
            T.append(Task("box/%s/%s/assign/dim%d" % (tt, pol, d), u, "FN_b_assign", ["C13/box_value.h"], c03.box_vars(), "BOX_T *rr = FN_b_assign(&G_bx, &G_by)", harness_pre=pre, **kw))
            T.append(Task("box/%s/%s/m_swap/dim%d" % (tt, pol, d), u, "FN_b_swap", ["C13/box_value.h"], c03.box_vars(), "FN_b_swap(&G_bx, &G_by)", harness_pre=pre, **kw))
            if d == 0: continue
            apre = c03.BOX_SETUP + "\n  G_satY0 = G_satX0; G_emptyY0 = G_emptyX0;"
            akw = dict(kw); akw["defs"] = dict(kw["defs"], BOX_ALIAS=1)
            for op in c03.BOX_OPS2:
                call = ("FN_b_%s(&G_bx, &G_bx)" if op in c03.BOX_VOID else "_Bool r = FN_b_%s(&G_bx, &G_bx)") % op
                T.append(Task("box-alias/%s/%s/%s/dim%d" % (tt, pol, op, d), u, "FN_b_" + op, ["C03/box.h"], c03.box_vars(), call, harness_pre=apre,
                              reach=[("point inside", "G_satX0")], **akw))
    return T

def build(tier):
    u = det_unit(); units = [u]
    tasks = det_tasks(u) + alias_tasks(units, tier) + itv_alias_tasks(units, tier) + box_value_tasks(units, tier)
    return units, tasks

def main(tier, only=None):
    units, tasks = build(tier)
    if only: tasks = [t for t in tasks if only in t.id]; units = [u for u in units if any(t.unit is u for t in tasks)]
    return run_check("C13", tier, tasks, units, "proof",
                     trusted_base=["clang 14 front end + LLVM mem2reg", "tools/ll2c.py (IR -> C)", "CBMC 6.11 / cadical", "stubs/common.c", "stubs/c13_new.c", "stubs/c03_box.c (operator new = malloc, never fails)",
                                   "units/C13/determinate.cc: VSet, a minimal PSET carrying a value identifier (assumed contract of the base domains)"],
                     extra_assumptions=["A7: 'references == number of owners' across whole histories is the inductive use of the per-operation contracts; stated, not machine-checked",
                                        "deep copies of polyhedra, grids, systems, expressions and the recycling entry points (GMP / container code) are NOT covered"],
                     explanation="CBMC code contracts on Determinate<PSET> (copy-on-write of powerset disjuncts) and aliased-argument variants of the checked-number contracts")

if __name__ == "__main__":
    import argparse
    ap = argparse.ArgumentParser(); ap.add_argument("--tier", default="quick"); ap.add_argument("--only", default=None)
    a = ap.parse_args()
    sys.exit(main(a.tier, a.only))
