"""C09 -- powersets denote the union of their disjuncts and every operation respects it (DESIGN.md section 10.2)."""
import os, sys
sys.path.insert(0, os.path.join(os.path.dirname(os.path.abspath(__file__)), "..", "tools"))
from vlib import *
from C11 import TYPES
from C12 import POLS

ROOTS = "re:^(w_s_|w_OK$|w_add$|w_b_OK$|ENC_|POL_|LOWER_|UPPER_|STORE_|MAY_|BST_)"
def unit_for(tt, pol):
    cxx, w, sg = TYPES[tt]
    return Unit("C09", "ps_%s_%s" % (tt, pol), "units/C09/powerset.cc", defs={"VB": cxx, "VPOL": POLS[pol], "T_W": w, "T_SIGNED": sg},
                roots=ROOTS, cut=["re:Box<.*>::throw_", "re:Pointset_Powerset<.*>::throw_", "re:Powerset<.*>::throw_"], stubs=["common.c"],
                type_aliases={"ITV_T": ("w_add", 0), "BOX_T": ("w_b_OK", 0), "PS_T": ("w_s_OK", 0)})

def svars():
    V = []
    for c in ("x0", "x1", "y0", "y1", "dd"):
        V += [Var("ITV_T", c + "a"), Var("ITV_T", c + "b"), Var("uint32_t", "f" + c)]
    return V + [Var("_Bool", "rx"), Var("_Bool", "ry"), Var("int32_t", "pn0"), Var("int32_t", "pn1"), Var("int8_t", "ps0"), Var("int8_t", "ps1")]

def mk_ps(ps, arr, n, names):
    """n disjuncts, each with its own node, representation (reference count 1) and interval storage"""
    L = ["  HDR(&%s)->f0.f0 = (NB_T *)HDR(&%s); HDR(&%s)->f0.f1 = (NB_T *)HDR(&%s); HDR(&%s)->f1 = %d; PS_DIM(&%s) = BOX_D;" % (ps, ps, ps, ps, ps, n, ps)]
    for k in range(2):
        nm = names[k]
        L.append("  G_n%s[%d] = (NODE_T *)malloc(sizeof(NODE_T)); G_r%s[%d] = (REP_T *)malloc(sizeof(REP_T)); G_i%s[%d] = (ITV_T *)malloc(sizeof(ITV_T) * BOX_N);" % (arr, k, arr, k, arr, k))
        L.append("  __CPROVER_assume(G_n%s[%d] != 0 && G_r%s[%d] != 0 && G_i%s[%d] != 0);" % (arr, k, arr, k, arr, k))
        L.append("  G_i%s[%d][0] = %sa; G_i%s[%d][1] = %sb; REP_REFS(G_r%s[%d]) = 1;" % (arr, k, nm, arr, k, nm, arr, k))
        L.append("  BOX_BEGIN(REP_BOX(G_r%s[%d])) = G_i%s[%d]; BOX_END(REP_BOX(G_r%s[%d])) = G_i%s[%d] + BOX_D; BOX_CAP(REP_BOX(G_r%s[%d])) = G_i%s[%d] + BOX_D; BOX_FLAGS(REP_BOX(G_r%s[%d])) = f%s;" % (arr, k, arr, k, arr, k, arr, k, arr, k, arr, k, arr, k, nm))
        L.append("  NODE_REP(G_n%s[%d]) = G_r%s[%d];" % (arr, k, arr, k))
    if n >= 1:
        L.append("  HDR(&%s)->f0.f0 = &G_n%s[0]->f0; G_n%s[0]->f0.f1 = (NB_T *)HDR(&%s);" % (ps, arr, arr, ps))
        last = 0
        if n == 2:
            L.append("  G_n%s[0]->f0.f0 = &G_n%s[1]->f0; G_n%s[1]->f0.f1 = &G_n%s[0]->f0;" % (arr, arr, arr, arr)); last = 1
        L.append("  G_n%s[%d]->f0.f0 = (NB_T *)HDR(&%s); HDR(&%s)->f0.f1 = &G_n%s[%d]->f0;" % (arr, last, ps, ps, arr, last))
    return "\n".join(L)

def setup(nx, ny, share=False):
    s = mk_ps("G_sx", "x", nx, ("x0", "x1")) + "\n" + mk_ps("G_sy", "y", ny, ("y0", "y1")) + "\n"
    if share:   # y's first disjunct is a copy-on-write sharer of x's first disjunct
        s += "  NODE_REP(G_ny[0]) = G_rx[0]; REP_REFS(G_rx[0]) = 2;\n"
    s += """  PS_REDUCED(&G_sx) = rx; PS_REDUCED(&G_sy) = ry;
  G_id = (ITV_T *)malloc(sizeof(ITV_T) * BOX_N); __CPROVER_assume(G_id != 0); G_id[0] = dda; G_id[1] = ddb;
  BOX_BEGIN(&G_d) = G_id; BOX_END(&G_d) = G_id + BOX_D; BOX_CAP(&G_d) = G_id + BOX_D; BOX_FLAGS(&G_d) = fdd;
  G_pn[0] = pn0; G_pn[1] = pn1; G_ps[0] = ps0; G_ps[1] = ps1;
  __CPROVER_assume(ps_wf(&G_sx) && ps_wf(&G_sy) && box_wf(&G_d, G_id) && pt_ok());
  G_ssatX0 = ps_sat(&G_sx); G_ssatY0 = ps_sat(&G_sy); G_dsat0 = bsat(&G_d); G_cntX0 = ps_count(&G_sx);"""
    return s

OPS1 = [("omega_reduce", "", "(POW_T *)"), ("pairwise_reduce", "", ""), ("collapse", "", "(POW_T *)"), ("topological_closure", "", ""), ("is_empty", "_Bool r = ", "")]
OPS2 = [("upper_bound", "", "(POW_T *)"), ("intersection", "", ""), ("contains", "_Bool r = ", ""), ("definitely_entails", "_Bool r = ", "(POW_T *)"), ("is_disjoint_from", "_Bool r = ", "")]

# The mutators walk and rebuild the list while the disjunct boxes change: 25-40 GB and 10-40 minutes per query on this
# machine, and they did not finish while the check was built.  Their contracts are written (contracts/C09/powerset.h)
# but they are not part of either tier and nothing is claimed for them; VERIF_C09_HEAVY=1 adds them to a run.
HEAVY = {"omega_reduce", "pairwise_reduce", "collapse", "topological_closure", "upper_bound", "intersection"}
RUN_HEAVY = os.environ.get("VERIF_C09_HEAVY") == "1"

def build(tier):
    units = []; T = []
    for (tt, pol) in [("s8", "rat")]:      # (both tiers: the Rational info policy exercises open and closed bounds; each extra combination costs about an hour)
        u = unit_for(tt, pol); units.append(u)
        d = 1
        def kw(nx, ny, share=False):
            pm = min(4, max(nx * max(ny, 1), nx + ny, 1) + 1)     # most disjuncts any state can have (meet: nx*ny, join: nx+ny, add_disjunct: nx+1)
            bound = {"unwind": max(nx + ny, 2) + 1, "ps_max": pm,
                     "unwindset": "ps_boxes.0:%d,ps_sat.0:%d,ps_omega_reduced.0:%d,ps_omega_reduced.1:%d,ps_wf.0:%d" % (pm + 2, pm + 2, pm + 2, pm + 2, pm + 2),   # the constant-bound loops of the spec functions
                     "note": "x has %d and y has %d disjuncts%s, space dimension %d; disjunct boxes (bounds, special/open bits, status flags), reduced flags and ghost point arbitrary; loops unwound with unwinding assertions" % (nx, ny, " (first ones sharing one representation)" if share else "", d)}
            return dict(bounded=bound, timeout=3000, object_bits=11, defs={"BOX_D": d, "PS_MAX": pm, "GHOST_RANGE": "((ex_t)%d)" % (1 << (u.defs["T_W"] + 1))}, split_post=False,
                        stubs=["c12_ghost.c", "c17_ghost.c", "c09_ps.c"], harness_pre=setup(nx, ny, share), group="powerset %s %s" % (tt, pol), mem_gb=40)
        shapes1 = [(2, 0)] if tier == "quick" else [(1, 0), (2, 0)]
        for (nx, ny) in shapes1:
            for (op, lhs, cast) in OPS1:
                if op in HEAVY and not RUN_HEAVY: continue
                T.append(Task("%s/%s/%s/x%d" % (tt, pol, op, nx), u, "FN_s_" + op, ["C09/powerset.h"], svars(), "%sFN_s_%s(%s&G_sx)" % (lhs, op, cast),
                              reach=[("point in the union", "G_ssatX0")] if nx else [], **kw(nx, ny)))
            T.append(Task("%s/%s/add_disjunct/x%d" % (tt, pol, nx), u, "FN_s_add_disjunct", ["C09/powerset.h"], svars(), "FN_s_add_disjunct(&G_sx, &G_d)",
                          reach=[("point in the new disjunct only", "!G_ssatX0 && G_dsat0")], **kw(nx, ny)))
        shapes2 = [(1, 1)] if tier == "quick" else [(1, 1), (1, 2)]      # a second disjunct in y: 15-20 minutes per query (thorough only)
        for (nx, ny) in shapes2:
            for (op, lhs, cast) in OPS2:
                if op in HEAVY and not RUN_HEAVY: continue
                T.append(Task("%s/%s/%s/x%dy%d" % (tt, pol, op, nx, ny), u, "FN_s_" + op, ["C09/powerset.h"], svars(), "%sFN_s_%s(%s&G_sx, %s&G_sy)" % (lhs, op, cast, cast),
                              reach=[("point in both unions", "G_ssatX0 && G_ssatY0"), ("point in x only", "G_ssatX0 && !G_ssatY0")], **kw(nx, ny)))
        for (nx, ny) in ([(1, 1)] if RUN_HEAVY else []):      # operator=: std::list assignment exceeds 40 GB even with one disjunct each (contract written, not discharged)
            T.append(Task("%s/%s/assign/x%dy%d" % (tt, pol, nx, ny), u, "FN_s_assign", ["C09/powerset.h"], svars(), "PS_T *rr = FN_s_assign(&G_sx, &G_sy)",
                          reach=[("source not omega-reduced", "!ps_omega_reduced(&G_sy)"), ("point in the source", "G_ssatY0")], **kw(nx, ny)))
        # copy on write: y's first disjunct shares its representation with x's first disjunct; mutating x must not change y
        for (op, lhs, cast) in ([("topological_closure", "", ""), ("omega_reduce", "", "(POW_T *)"), ("collapse", "", "(POW_T *)")] if RUN_HEAVY else []):
            k = kw(2, 1, True)
            T.append(Task("%s/%s/%s/shared" % (tt, pol, op), u, "FN_s_" + op, ["C09/powerset.h"], svars(), "%sFN_s_%s(%s&G_sx)" % (lhs, op, cast),
                          harness_post="  __CPROVER_assert(ps_wf(&G_sy) && ps_sat(&G_sy) == G_ssatY0, \"the powerset sharing a disjunct representation is unaffected\");",
                          reach=[("point in the shared disjunct", "G_ssatY0")], **k))
    return units, T

def main(tier, only=None):
    units, tasks = build(tier)
    if only: tasks = [t for t in tasks if only in t.id]; units = [u for u in units if any(t.unit is u for t in tasks)]
    return run_check("C09", tier, tasks, units, "other",
                     trusted_base=["clang 14 front end + LLVM mem2reg", "tools/ll2c.py (IR -> C)", "CBMC 6.11 / cadical", "stubs/common.c",
                                   "stubs/c09_ps.c (allocation never fails; check_space_dimension_overflow; the three out-of-line std::list node primitives of libstdc++ written out; byte-wise memmove)"],
                     extra_assumptions=["only powersets of boxes over native integer bounds and only the operations that need no constraint language: difference, geometric covering / equality (linear partition over NNC polyhedra), simplification with a context, add_constraint(s), affine transformers, dimension changes and the widenings are GMP code and are NOT covered",
                                        "at most 2 disjuncts per operand"],
                     explanation="bounded CBMC code contracts with a ghost point on Pointset_Powerset<Box> extracted from the real headers: Powerset / Pointset_Powerset templates, std::list, Determinate handles and Box disjuncts are all the real code",
                     max_workers=5)

if __name__ == "__main__":
    import argparse
    ap = argparse.ArgumentParser(); ap.add_argument("--tier", default="quick"); ap.add_argument("--only", default=None)
    a = ap.parse_args()
    sys.exit(main(a.tier, a.only))
