"""C19 -- watchdog / weight time-outs (DESIGN.md section 5, C19)."""
import os, sys
sys.path.insert(0, os.path.join(os.path.dirname(os.path.abspath(__file__)), "..", "tools"))
from vlib import *
from C11 import XSTR

def time_unit():
    return Unit("C19", "time", "units/C19/time.cc", roots="re:^(w_|USECS|CSECS)", stubs=["common.c"],
                type_aliases={"TIME_T": ("w_OK", 0), "TIME_RET_T": ("w_add", -1)})

def time_tasks(u):
    T = []
    H = ["C19/time.h"]
    def nat(decl, pre, call, post, show=""): return {"decl": XSTR + decl, "pre": "  " + pre, "call": call, "post": post, "show": show}
    # constructors
    T.append(Task("time/ctor_csecs", u, "FN_ctor_csecs", H, [Var("TIME_T", "t"), Var("uint64_t", "cs")], "FN_ctor_csecs(&t, cs)",
                  native=nat("extern void real_fn(TIME_T*, long) __asm__(XSTR(FN_ctor_csecs));", "PRE(operand, C_ctor_csecs_PRE(cs))", "real_fn(&t, (long)cs)", "C_ctor_csecs_POSTS((&t), cs)"),
                  reach=[("large", "cs > 1000000")]))
    T.append(Task("time/ctor_s_us", u, "FN_ctor_s_us", H, [Var("TIME_T", "t"), Var("uint64_t", "s"), Var("uint64_t", "us")], "FN_ctor_s_us(&t, s, us)",
                  native=nat("extern void real_fn(TIME_T*, long, long) __asm__(XSTR(FN_ctor_s_us));", "PRE(operand, C_ctor_s_us_PRE(s, us))", "real_fn(&t, (long)s, (long)us)", "C_ctor_s_us_POSTS((&t), s, us)"),
                  reach=[("carry", "us >= 1000000")]))
    for op in ("add_assign", "sub_assign"):
        T.append(Task("time/" + op, u, "FN_" + op, H, [Var("TIME_T", "x", snapshot=True), Var("TIME_T", "y")], "TIME_T *r = FN_%s(&x, &y)" % op,
                      native=nat("extern TIME_T* real_fn(TIME_T*, const TIME_T*) __asm__(XSTR(FN_%s));" % op, "PRE(wf_x, t_wf(&x)) PRE(wf_y, t_wf(&y))" + (" PRE(no_overflow, T_SECS(&x) + T_SECS(&y) + 1 < MAXSECS)" if op == "add_assign" else ""),
                                 "TIME_T *r = real_fn(&x, &y)", "C_%s_POSTS(r, (&x), (int64_t)x_old.f0, (int64_t)x_old.f1, (&y))" % op,
                                 'printf("  x = %ld s %ld us -> %ld s %ld us; y = %ld s %ld us\\n", (long)x_old.f0, (long)x_old.f1, (long)x.f0, (long)x.f1, (long)y.f0, (long)y.f1);'),
                      reach=[("carry or borrow", "T_USECS(&x) != 0")]))
    for op in ("add", "sub"):
        T.append(Task("time/" + op, u, "FN_" + op, H, [Var("TIME_T", "x"), Var("TIME_T", "y")], "TIME_RET_T r = FN_%s(&x, &y)" % op,
                      native=nat("struct time_ret { long s, u; };\nextern time_ret real_fn(const TIME_T*, const TIME_T*) __asm__(XSTR(FN_%s));" % op, "PRE(wf_x, t_wf(&x)) PRE(wf_y, t_wf(&y))" + (" PRE(no_overflow, T_SECS(&x) + T_SECS(&y) + 1 < MAXSECS)" if op == "add" else ""),
                                 "time_ret r = real_fn(&x, &y)", "C_%s_POSTS((int64_t)r.s, (int64_t)r.u, (&x), (&y))" % op),
                      reach=[("nonzero result", "r.f0 != 0")]))
    for op in ("eq", "ne", "lt", "le", "gt", "ge", "wd_less_than"):
        T.append(Task("time/" + op, u, "FN_" + op, H, [Var("TIME_T", "x"), Var("TIME_T", "y")], "_Bool r = FN_%s(&x, &y)" % op,
                      native=nat("extern bool real_fn(const TIME_T*, const TIME_T*) __asm__(XSTR(FN_%s));" % op, "PRE(wf_x, t_wf(&x)) PRE(wf_y, t_wf(&y))",
                                 "bool r = real_fn(&x, &y)", "C_%s_POSTS(r, (&x), (&y))" % op,
                                 'printf("  x = %ld s %ld us, y = %ld s %ld us, answer %d\\n", (long)x.f0, (long)x.f1, (long)y.f0, (long)y.f1, (int)r);'),
                      reach=[("true", "r"), ("false", "!r"), ("same second", "x.f0 == y.f0 && x.f1 != y.f1")]))
    T.append(Task("weight/less_than", u, "FN_ww_less_than", H, [Var("uint64_t", "a"), Var("uint64_t", "b")], "_Bool r = FN_ww_less_than(&a, &b)",
                  native=nat("extern bool real_fn(const uint64_t*, const uint64_t*) __asm__(XSTR(FN_ww_less_than));", "", "bool r = real_fn(&a, &b)", "C_ww_less_than_POSTS(r, a, b)",
                             'printf("  a=%llu b=%llu answer %d\\n", (unsigned long long)a, (unsigned long long)b, (int)r);'),
                  reach=[("true", "r"), ("false", "!r")]))
    return T


WD_ALIASES = {"FN_new_watchdog_event": r"Watchdog::new_watchdog_event\(", "FN_remove_watchdog_event": r"Watchdog::remove_watchdog_event\(",
              "FN_handle_timeout": r"Watchdog::handle_timeout\("}
def wd_unit():
    # the REAL source file of the library
    return Unit("C19", "watchdog_cc", REPO + "/src/Watchdog.cc", roots="re:^_ZN23Parma_Polyhedra_Library8Watchdog", cut=["re:throw_syscall_error"],
                aliases=WD_ALIASES, stubs=["common.c", "c19_sys.c"])

WD_BOUND = {"unwind": 7, "note": "pending list: at most 3 active elements and 1 free element (arbitrary contents); loops unwound to that length with unwinding assertions"}
def wd_state_vars():
    return [Var("TIME_T", "d0"), Var("TIME_T", "d1"), Var("TIME_T", "d2"), Var("TIME_T", "fdl"),
            Var("TIME_T", "tsf"), Var("TIME_T", "last"), Var("uint64_t", "rem_s"), Var("uint64_t", "rem_us"),
            Var("int64_t", "now_s"), Var("int64_t", "now_us"), Var("_Bool", "crit")]
def wd_setup(n, m):
    return """  G_e[0].f1 = d0; G_e[1].f1 = d1; G_e[2].f1 = d2; G_f[0].f1 = fdl;
  wd_build(%d, %d);
  S_time_so_far = tsf; S_last_req = last; G_rem_s = rem_s; G_rem_us = rem_us; G_now_s = now_s; G_now_us = now_us; S_in_critical = crit;""" % (n, m)

def wd_tasks(u, N):
    """the list shape (n active, m free elements, the element operated on) is fixed per task -- the cases are exhaustive
       for lists of at most N elements -- while deadlines, clock values and timer readings are arbitrary"""
    H = ["C19/watchdog.h"]; D = {"WD_N": 3}
    bound = {"unwind": 7, "note": "pending list: at most %d active elements and 1 free element, one task per list shape; deadlines, clocks and timer readings arbitrary; loops unwound to that length with unwinding assertions" % N}
    T = []
    kw = dict(bounded=bound, timeout=1800, object_bits=8, defs=D, split_post=True)
    for n in range(0, N):
        for m in (0, 1):
            T.append(Task("watchdog/new_watchdog_event/n%dm%d" % (n, m), u, "FN_new_watchdog_event", H, wd_state_vars() + [Var("uint64_t", "csecs")],
                          "DLO_T *pos = FN_new_watchdog_event(csecs, &G_h[WD_N], &G_flag[WD_N])", harness_pre=wd_setup(n, m),
                          reach=([("new front re-arms", "pos == A_SENT->f0"), ("not at front", "pos != A_SENT->f0")] if n >= 1 else []), **kw))
    for n in range(1, N + 1):
        for k in range(n):
            T.append(Task("watchdog/remove_watchdog_event/n%dk%d" % (n, k), u, "FN_remove_watchdog_event", H, wd_state_vars(),
                          "FN_remove_watchdog_event(0, &G_e[G_k].f0)", harness_pre=wd_setup(n, 0) + "\n  G_k = %d;" % k,
                          reach=([("successor in the same second", "d0.f0 == d1.f0 && d0.f1 != d1.f1")] if (k == 0 and n >= 2) else []), **kw))
    for n in range(1, N + 1):
        T.append(Task("watchdog/handle_timeout/n%d" % n, u, "FN_handle_timeout", H, wd_state_vars(),
                      "FN_handle_timeout(27)", harness_pre=wd_setup(n, 0),
                      reach=([("only the first due", "G_nfired == 1"), ("all due", "G_nfired == %d" % n)] if n >= 2 else []), **kw))
    return T

def tw_unit():
    return Unit("C19", "threshold", "units/C19/threshold.cc", roots="re:^w_", stubs=["common.c", "c19_new.c"])

def tw_vars(): return [Var("uint64_t", "d0"), Var("uint64_t", "d1"), Var("uint64_t", "d2"), Var("uint64_t", "fd"), Var("uint64_t", "w"), Var("uint64_t", "base")]
def tw_setup(n, m):
    return """  G_e[0].f1 = d0; G_e[1].f1 = d1; G_e[2].f1 = d2; G_f[0].f1 = fd; G_base = base;
  tw_build(%d, %d);
  S_weight = w;""" % (n, m)

def tw_tasks(u, N):
    H = ["C19/threshold.h"]
    bound = {"unwind": 7, "note": "pending list of at most %d thresholds and 1 free element, one task per list shape; thresholds and weight arbitrary within a 2^62 window" % N}
    kw = dict(bounded=bound, timeout=1800, object_bits=8, split_post=True)
    T = []
    for n in range(0, N):
        for m in (0, 1):
            T.append(Task("weightwatch/add_threshold/n%dm%d" % (n, m), u, "FN_add_threshold", H, tw_vars() + [Var("uint64_t", "t")],
                          "DLO_T *pos = FN_add_threshold(t, &G_h[TW_N], &G_flag[TW_N])", harness_pre=tw_setup(n, m),
                          reach=([("at front", "pos == A_SENT->f0"), ("not at front", "pos != A_SENT->f0")] if n >= 1 else []), **kw))
    for n in range(1, N + 1):
        for k in range(n):
            T.append(Task("weightwatch/remove_threshold/n%dk%d" % (n, k), u, "FN_remove_threshold", H, tw_vars(),
                          "FN_remove_threshold(&G_e[G_k].f0)", harness_pre=tw_setup(n, 0) + "\n  G_k = %d;" % k, **kw))
    for n in range(1, N + 1):
        T.append(Task("weightwatch/check/n%d" % n, u, "FN_check", H, tw_vars(), "FN_check()", harness_pre=tw_setup(n, 0),
                      reach=[("something fires", "G_nfired >= 1"), ("nothing fires", "G_nfired == 0")] + ([("all fire", "G_nfired == %d" % n)] if n >= 2 else []), **kw))
    return T

def build(tier):
    u = time_unit(); w = wd_unit(); tw = tw_unit(); N = 2 if tier == 'quick' else 3
    return [u, w, tw], time_tasks(u) + wd_tasks(w, N) + tw_tasks(tw, N)

def main(tier, only=None):
    units, tasks = build(tier)
    if only: tasks = [t for t in tasks if only in t.id]; units = [u for u in units if any(t.unit is u for t in tasks)]
    return run_check("C19", tier, tasks, units, "proof",
                     trusted_base=["clang 14 front end + LLVM mem2reg", "tools/ll2c.py (IR -> C)", "CBMC 6.11 / cadical", "stubs/common.c", "stubs/c19_*.c (timer system calls, allocator)"],
                     extra_assumptions=["L5: asynchronous delivery of the timer signal between two statements of the bookkeeping code, the in_critical_section protocol and reschedule() are NOT decided (no interleaving semantics in this technique)"],
                     explanation="CBMC code contracts on Time arithmetic, the weight order and (bounded) the pending-list / Watchdog bookkeeping extracted from the real sources")

if __name__ == "__main__":
    import argparse
    ap = argparse.ArgumentParser(); ap.add_argument("--tier", default="quick"); ap.add_argument("--only", default=None)
    a = ap.parse_args()
    sys.exit(main(a.tier, a.only))
