"""C19 -- watchdog / weight time-outs (DESIGN.md section 5, C19)."""
import os, sys
sys.path.insert(0, os.path.join(os.path.dirname(os.path.abspath(__file__)), "..", "tools"))
from vlib import *
from C11 import XSTR

def time_unit():
    return Unit("C19", "time", "units/C19/time.cc", roots="re:^(w_|USECS|CSECS)", stubs=["common.c"],
                type_aliases={"TIME_T": ("w_OK", 0), "TIME_RET_T": ("w_add", -1)})

def time_tasks(u):
    T = []
    H = ["C19/time.h"]
    def nat(decl, pre, call, post, show=""): return {"decl": XSTR + decl, "pre": "  " + pre, "call": call, "post": post, "show": show}
    # constructors
    T.append(Task("time/ctor_csecs", u, "FN_ctor_csecs", H, [Var("TIME_T", "t"), Var("uint64_t", "cs")], "FN_ctor_csecs(&t, cs)",
                  native=nat("extern void real_fn(TIME_T*, long) __asm__(XSTR(FN_ctor_csecs));", "PRE(operand, C_ctor_csecs_PRE(cs))", "real_fn(&t, (long)cs)", "C_ctor_csecs_POSTS((&t), cs)"),
                  reach=[("large", "cs > 1000000")]))
    T.append(Task("time/ctor_s_us", u, "FN_ctor_s_us", H, [Var("TIME_T", "t"), Var("uint64_t", "s"), Var("uint64_t", "us")], "FN_ctor_s_us(&t, s, us)",
                  native=nat("extern void real_fn(TIME_T*, long, long) __asm__(XSTR(FN_ctor_s_us));", "PRE(operand, C_ctor_s_us_PRE(s, us))", "real_fn(&t, (long)s, (long)us)", "C_ctor_s_us_POSTS((&t), s, us)"),
                  reach=[("carry", "us >= 1000000")]))
    for op in ("add_assign", "sub_assign"):
        T.append(Task("time/" + op, u, "FN_" + op, H, [Var("TIME_T", "x", snapshot=True), Var("TIME_T", "y")], "TIME_T *r = FN_%s(&x, &y)" % op,
                      native=nat("extern TIME_T* real_fn(TIME_T*, const TIME_T*) __asm__(XSTR(FN_%s));" % op, "PRE(wf_x, t_wf(&x)) PRE(wf_y, t_wf(&y))" + (" PRE(no_overflow, T_SECS(&x) + T_SECS(&y) + 1 < MAXSECS)" if op == "add_assign" else ""),
                                 "TIME_T *r = real_fn(&x, &y)", "C_%s_POSTS(r, (&x), (int64_t)x_old.f0, (int64_t)x_old.f1, (&y))" % op,
                                 'printf("  x = %ld s %ld us -> %ld s %ld us; y = %ld s %ld us\\n", (long)x_old.f0, (long)x_old.f1, (long)x.f0, (long)x.f1, (long)y.f0, (long)y.f1);'),
                      reach=[("carry or borrow", "T_USECS(&x) != 0")]))
    for op in ("add", "sub"):
        T.append(Task("time/" + op, u, "FN_" + op, H, [Var("TIME_T", "x"), Var("TIME_T", "y")], "TIME_RET_T r = FN_%s(&x, &y)" % op,
                      native=nat("struct time_ret { long s, u; };\nextern time_ret real_fn(const TIME_T*, const TIME_T*) __asm__(XSTR(FN_%s));" % op, "PRE(wf_x, t_wf(&x)) PRE(wf_y, t_wf(&y))" + (" PRE(no_overflow, T_SECS(&x) + T_SECS(&y) + 1 < MAXSECS)" if op == "add" else ""),
                                 "time_ret r = real_fn(&x, &y)", "C_%s_POSTS((int64_t)r.s, (int64_t)r.u, (&x), (&y))" % op),
                      reach=[("nonzero result", "r.f0 != 0")]))
    for op in ("eq", "ne", "lt", "le", "gt", "ge", "wd_less_than"):
        T.append(Task("time/" + op, u, "FN_" + op, H, [Var("TIME_T", "x"), Var("TIME_T", "y")], "_Bool r = FN_%s(&x, &y)" % op,
                      native=nat("extern bool real_fn(const TIME_T*, const TIME_T*) __asm__(XSTR(FN_%s));" % op, "PRE(wf_x, t_wf(&x)) PRE(wf_y, t_wf(&y))",
                                 "bool r = real_fn(&x, &y)", "C_%s_POSTS(r, (&x), (&y))" % op,
                                 'printf("  x = %ld s %ld us, y = %ld s %ld us, answer %d\\n", (long)x.f0, (long)x.f1, (long)y.f0, (long)y.f1, (int)r);'),
                      reach=[("true", "r"), ("false", "!r"), ("same second", "x.f0 == y.f0 && x.f1 != y.f1")]))
    T.append(Task("weight/less_than", u, "FN_ww_less_than", H, [Var("uint64_t", "a"), Var("uint64_t", "b")], "_Bool r = FN_ww_less_than(&a, &b)",
                  native=nat("extern bool real_fn(const uint64_t*, const uint64_t*) __asm__(XSTR(FN_ww_less_than));", "", "bool r = real_fn(&a, &b)", "C_ww_less_than_POSTS(r, a, b)",
                             'printf("  a=%llu b=%llu answer %d\\n", (unsigned long long)a, (unsigned long long)b, (int)r);'),
                  reach=[("true", "r"), ("false", "!r")]))
    return T

def build(tier):
    u = time_unit()
    return [u], time_tasks(u)

def main(tier, only=None):
    units, tasks = build(tier)
    if only: tasks = [t for t in tasks if only in t.id]; units = [u for u in units if any(t.unit is u for t in tasks)]
    return run_check("C19", tier, tasks, units, "proof",
                     trusted_base=["clang 14 front end + LLVM mem2reg", "tools/ll2c.py (IR -> C)", "CBMC 6.11 / cadical", "stubs/common.c", "stubs/c19_*.c (timer system calls, allocator)"],
                     extra_assumptions=["L5: asynchronous delivery of the timer signal between two statements of the bookkeeping code, the in_critical_section protocol and reschedule() are NOT decided (no interleaving semantics in this technique)"],
                     explanation="CBMC code contracts on Time arithmetic, the weight order and (bounded) the pending-list / Watchdog bookkeeping extracted from the real sources")

if __name__ == "__main__":
    import argparse
    ap = argparse.ArgumentParser(); ap.add_argument("--tier", default="quick"); ap.add_argument("--only", default=None)
    a = ap.parse_args()
    sys.exit(main(a.tier, a.only))
