#!/bin/bash
for p in ${THOROUGH_PROPS:-C17 C08 C12 C13 C19 C16 C03 C10 C11}; do
  echo "=== $p thorough start $(date +%H:%M)"
  ./check $p --tier thorough > /tmp/thorough_$p.out 2>/tmp/thorough_$p.err; rc=$?
  echo "=== $p thorough exit=$rc $(tail -1 /tmp/thorough_$p.out)"
  grep "^UNDECIDED\|^VIOLATION\|^TOOL-PROBLEM" /tmp/thorough_$p.out | cut -c1-220 | head -40
done
