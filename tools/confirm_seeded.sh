#!/bin/bash
# confirm_seeded.sh <incoming-dir> <testdirs...>   (maintenance tool, not a registered check)
# Confirms one seeded defect in scratch worktrees outside /repo and /verif:
#   base tree  = /repo HEAD (built once, kept in $BASE until `confirm_seeded.sh --cleanup`)
#   mutant     = HEAD + patch.diff
# builds libppl in both, runs the listed test directories on the mutant, and the demo on both.
set -u
BASE=/tmp/wt_seed_base; MUT=/tmp/wt_seed_mut; J=${SEED_JOBS:-6}
if [ "$1" = "--cleanup" ]; then git -C /repo worktree remove --force $BASE 2>/dev/null; git -C /repo worktree remove --force $MUT 2>/dev/null; rm -rf $BASE $MUT; exit 0; fi
D=$(readlink -f "$1"); shift
mk() { # $1 = dir
  if [ ! -d "$1" ]; then git -C /repo worktree add -q --detach "$1" HEAD && rsync -a --ignore-existing --exclude .git /repo/ "$1"/; fi
  (cd "$1" && git checkout -q -- . && git checkout -q --detach $(git -C /repo rev-parse HEAD))
}
mk $BASE; mk $MUT
if [ ! -f $BASE/.built_$(git -C /repo rev-parse --short HEAD) ]; then (cd $BASE && make -C src -j$J >/dev/null 2>&1 && make -C src ppl.hh >/dev/null 2>&1; touch .built_$(git -C /repo rev-parse --short HEAD)); fi
cd $MUT && git apply "$D/patch.diff" || { echo "RESULT patch does not apply"; exit 1; }
make -C src -j$J > $D/confirm_build.log 2>&1 && make -C src ppl.hh >> $D/confirm_build.log 2>&1 || { echo "RESULT mutant does not build"; exit 1; }
echo "BUILD ok"
for t in "$@"; do
  (cd $MUT && make -C $t -j$J check > $D/confirm_test_$(echo $t | tr '/' '_').log 2>&1)
  echo "TEST $t: $(grep -h '^# PASS:\|^# FAIL:\|^# ERROR:\|tests\? passed\|tests\? failed' $D/confirm_test_$(echo $t | tr '/' '_').log | sort | uniq -c | tr '\n' ' ')"
done
demo() { # $1 tree  $2 out
  g++ -std=c++11 -O0 -w -I$1/src -I$1 -I$1/tests -I$1/tests/Concrete_Expression -I$1/interfaces $D/demo.cc -o /tmp/seed_demo_$$ -L$1/src/.libs -lppl -lgmpxx -lgmp -Wl,-rpath,$1/src/.libs > $2.build 2>&1 || { echo "demo build failed ($1)"; return 99; }
  /tmp/seed_demo_$$ > $2 2>&1; local rc=$?; rm -f /tmp/seed_demo_$$; return $rc
}
demo $BASE $D/confirm_demo_base.out; B=$?
demo $MUT $D/confirm_demo_mut.out; M=$?
echo "DEMO base=$B mutant=$M"
(cd $MUT && git checkout -q -- .)
if [ $B -eq 0 ] && [ $M -ne 0 ] && [ $M -ne 99 ]; then echo "RESULT confirmed"; else echo "RESULT not confirmed"; fi
