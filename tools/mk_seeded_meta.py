#!/usr/bin/env python3
"""mk_seeded_meta.py <incoming-dir> <id> <property> <check_result> <how> [needs] [selftest-prop selftest-only expect]
(maintenance tool) copies patch.diff / demo.cc / notes.txt of a confirmed seeded change to seeded/<id>/ and writes meta.json
from the confirmation logs left by tools/confirm_seeded.sh in the incoming directory."""
import sys, os, json, re, shutil, subprocess, glob
V = os.path.dirname(os.path.dirname(os.path.abspath(__file__)))
inc, sid, prop, result, how = sys.argv[1:6]
needs = sys.argv[6] if len(sys.argv) > 6 else ""
dst = os.path.join(V, "seeded", sid); os.makedirs(dst, exist_ok=True)
for f in ("patch.diff", "demo.cc", "notes.txt"):
    if os.path.exists(os.path.join(inc, f)): shutil.copy(os.path.join(inc, f), os.path.join(dst, f))
tests = {}
for lg in sorted(glob.glob(os.path.join(inc, "confirm_test_*.log"))):
    t = open(lg, errors="replace").read()
    tests[os.path.basename(lg)[len("confirm_test_"):-4]] = {
        "all_N_tests_passed_lines": re.findall(r'^All \d+ tests passed', t, re.M), "PASS_lines": len(re.findall(r'^PASS:', t, re.M)),
        "FAIL_lines": len(re.findall(r'^FAIL:', t, re.M)), "summary": re.findall(r'^# (?:PASS|FAIL|ERROR):\s+\d+', t, re.M)}
def tail(p): return open(p, errors="replace").read()[-600:] if os.path.exists(p) else None
files = re.findall(r'^\+\+\+ b/(\S+)', open(os.path.join(dst, "patch.diff")).read(), re.M)
meta = {"id": sid, "property": prop, "source": "independent sub-agent given only the property text and a scratch worktree",
        "applies_to_repo_commit": subprocess.run(["git", "-C", "/repo", "rev-parse", "--short", "HEAD"], capture_output=True, text=True).stdout.strip(),
        "files_changed": files, "needs_to_manifest": needs,
        "confirmed_by": "tools/confirm_seeded.sh in scratch worktrees /tmp/wt_seed_base, /tmp/wt_seed_mut (removed afterwards): library builds with the patch, listed test directories pass, demo exits 0 on HEAD and non-zero with the patch",
        "test_directories_run_on_the_mutant": tests,
        "demo_output_tail": {"base": tail(os.path.join(inc, "confirm_demo_base.out")), "mut": tail(os.path.join(inc, "confirm_demo_mut.out"))},
        "agent_reported_tests": "see notes.txt", "check_result": result, "how": how}
if len(sys.argv) > 9: meta["selftest"] = {"prop": sys.argv[7], "only": sys.argv[8], "expect": sys.argv[9]}
json.dump(meta, open(os.path.join(dst, "meta.json"), "w"), indent=1)
print("wrote", dst)
