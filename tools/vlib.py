#!/usr/bin/env python3
"""vlib.py -- shared machinery of the /verif checks (DESIGN.md section 4).

  Unit   : a C++ translation unit (a wrapper under /verif/units or a real source
           file of /repo) -> clang -O0 IR -> mem2reg -> ll2c -> C.
  Task   : one function under contract: goto-cc, goto-instrument --dfcc
           --enforce-contract, cbmc; obligations parsed from cbmc's JSON.
  replay : a refuted obligation is replayed natively against the real code.
  run_check: runs tasks in parallel, triages, writes evidence, sets exit code.

Exit codes: 0 all obligations discharged (KNOWN-FINDING lines allowed);
            1 a refuted obligation that replays natively (VIOLATION line);
            2 undecided / tool / extraction problem -- never a verdict.
"""
import os, sys, re, json, time, shutil, subprocess, hashlib, concurrent.futures as cf

VERIF = os.path.dirname(os.path.dirname(os.path.abspath(__file__)))
REPO = os.environ.get("VERIF_REPO", "/repo")
OUT = os.environ.get("VERIF_OUT", VERIF)   # self-tests redirect build/evidence/replays away from /verif
BUILD = os.path.join(OUT, "build")
TOOLS = os.path.join(VERIF, "tools")
CLANG = "clang++-14"; OPT = "opt-14"
CLANG_FLAGS = ["-O0", "-std=c++11", "-DHAVE_CONFIG_H", "-fno-access-control", "-fno-discard-value-names",
               "-Xclang", "-disable-O0-optnone", "-w",
               "-I" + REPO, "-I" + REPO + "/src", "-I" + REPO + "/interfaces", "-I" + VERIF + "/units"]
NCPU = int(os.environ.get("VERIF_JOBS", os.cpu_count() or 4))

GLOBAL_ASSUMPTIONS = [
 "A1/D1: clang 14 -O0 + LLVM mem2reg translate ISO C++11 faithfully (the shipped library is built with g++ -O2 -frounding-math); optimisation-induced differences are not examined",
 "A2: tools/ll2c.py transliterates the LLVM IR subset faithfully; checked per refutation by native replay against the real code, not checked for accepted obligations",
 "A3: CBMC 6.11 (goto-cc, goto-instrument --dfcc) and the SAT back end (cadical) are sound",
 "A4: machine model x86-64 LP64, two's complement, as configured in /repo/config.h",
 "D2/A8: exceptional control flow is dropped: invoke = call + normal edge, landing pads unreachable, __cxa_throw = does not return; every postcondition is about normal return",
 "D3: PPL_ASSERT / assert are compiled out exactly as in the shipped build (NDEBUG); debug-only code is not verified",
 "D5: LLVM undef/poison = nondeterministic value; nsw arithmetic, shifts, division and memory accesses carry CBMC's generated UB obligations; nuw is not checked",
]

import threading, contextlib
class _WeightedSlots:
    """at most `cap` units of solver processes at a time; a memory-heavy process takes several units"""
    def __init__(s, cap): s.cap = cap; s.used = 0; s.cv = threading.Condition(); s.heavy = 1
    @contextlib.contextmanager
    def take(s, mem_gb):
        w = min(s.cap, s.heavy if mem_gb >= 30 else 1)
        with s.cv:
            while s.used + w > s.cap: s.cv.wait()
            s.used += w
        try: yield
        finally:
            with s.cv: s.used -= w; s.cv.notify_all()
    @contextlib.contextmanager
    def exclusive(s):
        with s.cv:
            while s.used > 0: s.cv.wait()
            s.used = s.cap
        try: yield
        finally:
            with s.cv: s.used = 0; s.cv.notify_all()
CBMC_SLOTS = _WeightedSlots(int(os.environ.get("VERIF_CBMC_SLOTS", NCPU)))
def set_cbmc_slots(n):
    """at most n memory-heavy solver processes (mem_gb >= 30) at a time; light ones keep one unit each"""
    CBMC_SLOTS.heavy = max(1, -(-CBMC_SLOTS.cap // n))

class ToolError(Exception):
    """undecided: extraction / tool problem (exit 2)"""

def sh(cmd, cwd=None, timeout=None, stdin=None, mem_gb=None, env=None):
    pre = None
    if mem_gb:
        import resource
        def pre():
            lim = int(mem_gb * (1 << 30)); resource.setrlimit(resource.RLIMIT_AS, (lim, lim))
    t0 = time.time()
    try:
        r = subprocess.run(cmd, cwd=cwd, timeout=timeout, input=stdin, capture_output=True, text=True, preexec_fn=pre, env=env)
        return r.returncode, r.stdout, r.stderr, time.time() - t0
    except subprocess.TimeoutExpired as e:
        return -9, (e.stdout or b"").decode("utf8", "replace") if isinstance(e.stdout, bytes) else (e.stdout or ""), "TIMEOUT", time.time() - t0

def demangle(names):
    r = subprocess.run(["c++filt"], input="\n".join(names), capture_output=True, text=True)
    return dict(zip(names, r.stdout.split("\n")))

def short_dem(d):
    d = d.replace("Parma_Polyhedra_Library::", "")
    return d

# ---------------------------------------------------------------- units
class Unit:
    """A translation unit compiled from the CURRENT working tree of /repo on every run."""
    def __init__(s, prop, name, src, defs=None, roots="re:^w_", cut=(), aliases=None, extra_flags=(), stubs=(), type_aliases=None, global_aliases=None):
        s.prop, s.name, s.src = prop, name, src
        s.type_aliases = dict(type_aliases or {}); s.global_aliases = dict(global_aliases or {})
        s.defs = dict(defs or {}); s.roots = roots; s.cut = list(cut); s.aliases = dict(aliases or {})
        s.extra_flags = list(extra_flags); s.stubs = list(stubs)
        s.dir = os.path.join(BUILD, prop, "units", name)
        s.built = False; s.meta = None; s.names = {}
    def dflags(s): return ["-D%s=%s" % (k, v) if v is not None else "-D%s" % k for k, v in s.defs.items()]
    def build(s):
        if s.built: return s
        shutil.rmtree(s.dir, ignore_errors=True); os.makedirs(s.dir)
        src = s.src if os.path.isabs(s.src) else os.path.join(VERIF, s.src)
        if not os.path.exists(src): raise ToolError("unit source %s does not exist" % src)
        ll = os.path.join(s.dir, "unit.ll"); mll = os.path.join(s.dir, "unit.m.ll")
        rc, o, e, t = sh([CLANG] + CLANG_FLAGS + s.dflags() + s.extra_flags + ["-S", "-emit-llvm", src, "-o", ll], timeout=600)
        if rc != 0: raise ToolError("clang failed on unit %s:\n%s" % (s.name, e[-3000:]))
        rc, o, e, t = sh([OPT, "-S", "-passes=mem2reg", ll, "-o", mll], timeout=300)
        if rc != 0: raise ToolError("opt failed on unit %s: %s" % (s.name, e[-2000:]))
        # resolve aliases given as regex on demangled names -> mangled
        defs = re.findall(r'^define [^@]*@("[^"]*"|[-\w$.]+)\(', open(mll).read(), re.M)
        defs = [d.strip('"') for d in defs]
        dem = demangle(defs)
        cutm = []
        for c in s.cut:
            if c.startswith("re:"):
                hit = [d for d in defs if re.search(c[3:], dem[d])]
                cutm.extend(hit)
            else: cutm.append(c)
        rc, o, e, t = sh([sys.executable, os.path.join(TOOLS, "ll2c.py"), mll, "--roots", s.roots, "--cut", ",".join(cutm),
                          "-o", os.path.join(s.dir, "unit.c"), "--header", os.path.join(s.dir, "unit.h"), "--meta", os.path.join(s.dir, "meta.json")], timeout=600)
        if rc != 0: raise ToolError("ll2c failed on unit %s: %s" % (s.name, (e or o)[-3000:]))
        s.meta = json.load(open(os.path.join(s.dir, "meta.json")))
        fn = {f["name"]: f for f in s.meta["functions"]}
        # aliases: FN_<X> = sole PPL callee of extern "C" wrapper w_<X>; explicit regex aliases on demangled names
        names = {}
        for f in s.meta["functions"]:
            if f["name"].startswith("w_"):
                cal = [c for c in f["callees"] if not c.startswith("w_")]
                if len(cal) == 1: names["FN_" + f["name"][2:]] = cal[0]
        for al, pat in s.aliases.items():
            allnames = list(fn) + s.meta["external"]
            d2 = demangle(allnames)
            hit = [n for n in allnames if re.search(pat, d2[n])]
            if len(hit) != 1:
                raise ToolError("alias %s: pattern %r matches %d functions in unit %s (%s)" % (al, pat, len(hit), s.name, ", ".join(short_dem(d2[h])[:80] for h in hit[:5])))
            names[al] = hit[0]
        # aliases of global variables: NAME -> the one global of the unit whose demangled name matches the regex
        if s.global_aliases:
            gl = [g.strip('"') for g in re.findall(r'^@("[^"]*"|[-\w$.]+) = ', open(mll).read(), re.M)]
            utext = open(os.path.join(s.dir, "unit.c")).read()
            gl = [g for g in gl if re.search(r'\b' + re.escape(g) + r'\b', utext)]
            dg = demangle(gl)
            for al, pat in s.global_aliases.items():
                hit = [g for g in gl if re.search(pat, dg[g])]
                if len(hit) != 1: raise ToolError("global alias %s: pattern %r matches %d globals in unit %s" % (al, pat, len(hit), s.name))
                names[al] = hit[0]
        s.names = names
        with open(os.path.join(s.dir, "names.h"), "w") as f:
            for k, v in sorted(names.items()): f.write("#define %s %s\n" % (k, v))
            # type aliases: NAME -> pointee type of parameter i of wrapper w
            for k, (wn, i) in sorted(s.type_aliases.items()):
                if wn not in fn: raise ToolError("type alias %s: wrapper %s not in unit %s" % (k, wn, s.name))
                ty = fn[wn]["ret"] if i < 0 else fn[wn]["params"][i][0]
                f.write("#define %s %s\n" % (k, ty[:-1] if ty.endswith("*") else ty))
        s.built = True
        return s
    def fmeta(s, mangled):
        for f in s.meta["functions"]:
            if f["name"] == mangled: return f
        return None
    def closure(s, mangled, stop=()):
        """functions reachable from `mangled` inside the unit (not descending into `stop`)"""
        fn = {f["name"]: f for f in s.meta["functions"]}
        seen = []; work = [mangled]; ext = set()
        while work:
            f = work.pop()
            if f in seen: continue
            if f not in fn: ext.add(f); continue
            seen.append(f)
            if f in stop and f != mangled: continue
            work.extend(fn[f]["callees"])
        return seen, sorted(ext)

# ---------------------------------------------------------------- tasks
class Var:
    def __init__(s, ctype, name, init=None, snapshot=False, assume=None):
        s.ctype, s.name, s.init, s.snapshot, s.assume = ctype, name, init, snapshot, assume

class Task:
    """one function under contract.
       contract_headers : files under /verif/contracts (dual mode: CBMC / native)
       enforce          : alias (FN_x) or mangled name of the function whose contract is enforced
       replace          : aliases whose calls are replaced by their (separately enforced) contracts
       vars             : harness variables (nondeterministic unless init given); `call` is the C call expression
       reach            : list of (label, C condition) must-be-reachable points after the call (vacuity guard)
       bounded          : None or dict(unwind=N, note=...) -> labelled bounded, not counted as proved
    """
    def __init__(s, tid, unit, enforce, contract_headers, vars, call, replace=(), defs=None, reach=(), bounded=None,
                 timeout=900, mem_gb=8, object_bits=10, extra_cbmc=(), harness_pre="", harness_post="", native=None,
                 contract=None, loop_contracts=False, group=None, notes=None, stubs=(), nothrow=True, solver="cadical", split_post=False, assumed=(), no_return=False):
        s.id, s.unit, s.enforce, s.headers, s.vars, s.call = tid, unit, enforce, list(contract_headers), list(vars), call
        s.replace = list(replace); s.defs = dict(defs or {}); s.reach = list(reach); s.bounded = bounded
        s.timeout, s.mem_gb, s.object_bits, s.extra_cbmc = timeout, mem_gb, object_bits, list(extra_cbmc)
        s.harness_pre, s.harness_post, s.native, s.contract = harness_pre, harness_post, native, contract
        s.loop_contracts = loop_contracts; s.group = group or tid; s.notes = notes; s.stubs = list(stubs); s.nothrow = nothrow
        s.solver = solver; s.split_post = split_post; s.assumed = list(assumed)
        s.no_return = no_return   # the call must end in the documented exception: normal return is itself a failed obligation
        s.dir = None

    def mangled(s, alias):
        u = s.unit
        if alias in u.names: return u.names[alias]
        if u.fmeta(alias) or alias in u.meta["external"]: return alias
        raise ToolError("task %s: function alias %s not found in unit %s" % (s.id, alias, u.name))

    def harness_text(s):
        L = ["void harness(void) {"]
        for v in s.vars:
            if v.init is None and v.ctype == "_Bool":   # CBMC's nondeterministic _Bool is any byte; C's is 0 or 1
                L.append("  unsigned char %s__raw; _Bool %s = (%s__raw & 1) != 0;" % (v.name, v.name, v.name))
            elif v.init is None: L.append("  %s %s;" % (v.ctype, v.name))
            else: L.append("  %s %s = %s;" % (v.ctype, v.name, v.init))
        for v in s.vars:
            if v.assume: L.append("  __CPROVER_assume(%s);" % v.assume)
        L.append("  LL_global_ctors();   /* dynamic initialisers of the globals the unit uses */")
        if s.harness_pre: L.append(s.harness_pre)
        L.append("  LL_nothrow = %d;" % (1 if s.nothrow else 0))
        L.append("  " + s.call + ";")
        if s.harness_post: L.append(s.harness_post)
        if s.no_return: L.append('  __CPROVER_assert(0, "a call that must be rejected returned normally");')
        else: L.append('  __CPROVER_assert(0, "REACH normal return");')
        for (lab, cond) in s.reach:
            L.append('  if (%s) __CPROVER_assert(0, "REACH %s");' % (cond, lab))
        L.append("}")
        return "\n".join(L)

    def write(s, prop):
        u = s.unit
        s.dir = os.path.join(BUILD, prop, "tasks", re.sub(r'[^\w.-]', '_', s.id))
        shutil.rmtree(s.dir, ignore_errors=True); os.makedirs(s.dir)
        L = ["#define VERIF_CBMC 1"]
        for k, v in {**u.defs, **s.defs}.items():
            if re.match(r'^\w+$', k) and k not in ("VT", "VP"): L.append("#define %s %s" % (k, v if v is not None else ""))
        L += ['#include "%s"' % os.path.join(u.dir, "unit.h"), '#include "%s"' % os.path.join(u.dir, "names.h")]
        for h in s.headers: L.append('#include "%s"' % os.path.join(VERIF, "contracts", h))
        L.append("_Bool LL_nothrow = 0;")
        L.append('#include "%s"' % os.path.join(u.dir, "unit.c"))
        for st in list(u.stubs) + s.stubs: L.append('#include "%s"' % os.path.join(VERIF, "stubs", st))
        L.append(s.harness_text())
        open(os.path.join(s.dir, "task.c"), "w").write("\n".join(L) + "\n")

    def run(s, prop):
        """returns a result dict; raises nothing (errors are recorded as undecided)"""
        res = {"id": s.id, "group": s.group, "unit": s.unit.name, "bounded": s.bounded, "status": "undecided", "why": None,
               "obligations": 0, "discharged": 0, "failed": [], "reach_ok": None, "time": {}, "notes": s.notes}
        try:
            s.write(prop)
            enf = s.mangled(s.enforce); res["function"] = enf
            reps = [s.mangled(r) for r in s.replace]
            res["replaced"] = reps
            res["assumed_contracts"] = [s.mangled(r) for r in s.assumed]      # replaced by a contract that NO task enforces
            d = s.dir
            rc, o, e, t = sh(["goto-cc", "--function", "harness", "task.c", "-o", "task.gb"], cwd=d, timeout=300)
            res["time"]["goto-cc"] = round(t, 2)
            open(os.path.join(d, "goto-cc.log"), "w").write(o + e)
            if rc != 0: res["why"] = "goto-cc failed: " + (e or o)[-1500:]; return res
            cmd = ["goto-instrument", "--dfcc", "harness", "--enforce-contract", enf]
            for r in reps: cmd += ["--replace-call-with-contract", r]
            if s.loop_contracts: cmd += ["--apply-loop-contracts"]
            cmd += ["task.gb", "task.i.gb"]
            rc, o, e, t = sh(cmd, cwd=d, timeout=600, mem_gb=s.mem_gb)
            res["time"]["goto-instrument"] = round(t, 2)
            open(os.path.join(d, "goto-instrument.log"), "w").write(" ".join(cmd) + "\n" + o + e)
            if rc != 0: res["why"] = "goto-instrument failed: " + (e or o)[-1500:]; return res
            cb = ["cbmc", "task.i.gb", "--json-ui", "--object-bits", str(s.object_bits), "--no-malloc-may-fail",
                  "--bounds-check", "--pointer-check", "--signed-overflow-check", "--div-by-zero-check", "--undefined-shift-check",
                  ] + s.extra_cbmc
            if s.solver == "cadical": cb += ["--sat-solver", "cadical"]
            elif s.solver == "kissat": cb += ["--external-sat-solver", "kissat"]
            elif s.solver == "minisat": pass
            else: cb += s.solver.split()
            if s.bounded and s.bounded.get("unwind"): cb += ["--unwind", str(s.bounded["unwind"]), "--unwinding-assertions"]
            if s.bounded and s.bounded.get("unwindset"): cb += ["--unwindset", s.bounded["unwindset"], "--unwinding-assertions"]
            res["checker_cmd"] = " ".join(cmd) + " && " + " ".join(cb)
            if s.split_post:
                # every postcondition clause is a separate solver query (run in parallel); all other obligations
                # (frame, memory safety, arithmetic UB, unwinding, vacuity guards) form one more query.
                rc, o, e, t = sh(["cbmc", "task.i.gb", "--show-properties", "--json-ui"] + [x for x in cb[3:] if x not in ("--json-ui",)], cwd=d, timeout=600, mem_gb=s.mem_gb)
                try:
                    allp = []
                    for x in json.loads(o):
                        for pr in x.get("properties", []): allp.append(pr["name"])
                except Exception: res["why"] = "cannot list properties: " + (o + e)[-500:]; return res
                posts = [p for p in allp if ".postcondition." in p]; rest = [p for p in allp if ".postcondition." not in p]
                groups = [[p] for p in posts] + ([rest] if rest else [])
                t0 = time.time()
                def run_group(g):
                    c2 = list(cb)
                    for p in g: c2 += ["--property", p]
                    with CBMC_SLOTS.take(s.mem_gb): out = sh(c2, cwd=d, timeout=s.timeout, mem_gb=s.mem_gb)
                    if out[2] != "TIMEOUT" and not out[1].rstrip().endswith("]"):
                        # the solver process was killed (memory pressure from concurrent work): once more, alone
                        with CBMC_SLOTS.exclusive(): out = sh(c2, cwd=d, timeout=s.timeout, mem_gb=s.mem_gb)
                    return out
                with cf.ThreadPoolExecutor(max_workers=min(len(groups), 8)) as ex2: outs = list(ex2.map(run_group, groups))
                res["time"]["cbmc"] = round(time.time() - t0, 2); res["time"]["cbmc_cpu_sum"] = round(sum(x[3] for x in outs), 2)
                props = []; msgs = []; js = None
                for gi, (rc2, o2, e2, t2) in enumerate(outs):
                    open(os.path.join(d, "cbmc.%d.json" % gi), "w").write(o2)
                    if e2 == "TIMEOUT": res["why"] = "cbmc timeout after %ds on %s" % (s.timeout, groups[gi][0]); return res
                    try: j2 = json.loads(o2)
                    except Exception: res["why"] = "cbmc output not JSON: " + (o2 + e2)[-600:]; return res
                    pp = None
                    for x in j2:
                        if "result" in x: pp = x["result"]
                        if "messageText" in x: msgs.append(x["messageText"])
                    if pp is None: res["why"] = "cbmc produced no result list for %s: %s" % (groups[gi][0], "\n".join(msgs)[-600:]); return res
                    want = set(groups[gi]); props += [p for p in pp if p["property"] in want]
                rc = 0; o = ""; e = ""
            else:
                with CBMC_SLOTS.take(s.mem_gb): rc, o, e, t = sh(cb, cwd=d, timeout=s.timeout, mem_gb=s.mem_gb)
                if e != "TIMEOUT" and not o.rstrip().endswith("]"):
                    with CBMC_SLOTS.exclusive(): rc, o, e, t = sh(cb, cwd=d, timeout=s.timeout, mem_gb=s.mem_gb)
                res["time"]["cbmc"] = round(t, 2)
                open(os.path.join(d, "cbmc.json"), "w").write(o); open(os.path.join(d, "cbmc.err"), "w").write(e)
                if e == "TIMEOUT": res["why"] = "cbmc timeout after %ds" % s.timeout; return res
                try: js = json.loads(o)
                except Exception: res["why"] = "cbmc output not JSON (rc=%d): %s" % (rc, (o + e)[-800:]); return res
                props = None; msgs = []
                for x in js:
                    if "result" in x: props = x["result"]
                    if "messageText" in x: msgs.append(x["messageText"])
            alltext = "\n".join(msgs)
            res["solver_s"] = sum(float(m) for m in re.findall(r'Runtime Solver: ([\d.e+-]+)s', alltext))
            if props is None: res["why"] = "cbmc produced no result list (rc=%d): %s" % (rc, alltext[-800:]); return res
            bad_msg = [m for m in msgs if re.search(r'ignoring|no body for (function|callee)|unknown|out of memory', m, re.I)
                       and not re.search(r'__CPROVER_contracts|ignoring.*asm', m)]
            nreach = 0; reach_ok = True; failed = []; nobl = 0; ndis = 0; names = []
            for p in props:
                nm, st, desc = p["property"], p["status"], p.get("description", "")
                if desc.startswith("REACH"):
                    nreach += 1
                    if st != "FAILURE": reach_ok = False; res.setdefault("unreached", []).append(desc)
                    continue
                if "undefined function should be unreachable" in desc:
                    # a call to a body-less function: extraction hole, never a verdict
                    if st != "SUCCESS": res["why"] = "call to a function without body (%s): extraction/stub hole" % nm; res["status"] = "undecided"; return res
                    continue
                if re.search(r'\.(single_top_level_call|no_recursive_call)\.\d+$', nm) and st != "SUCCESS":
                    # restrictions of goto-instrument --dfcc on the shape of the harness / the enforced function, not obligations of the code
                    res["why"] = "DFCC restriction violated by the task set-up (%s): tool limit, never a verdict" % nm.rsplit(".", 2)[-2]; res["status"] = "undecided"; return res
                if re.search(r'\.unwind\.\d+$', nm) and st != "SUCCESS":
                    # the stated bound does not cover this loop on some input: a limit of the bounded stand-in, not an obligation of the code
                    res["why"] = "unwinding assertion %s fails: the task's unwinding bound is too small for some admitted input (tool limit, never a verdict)" % nm; res["status"] = "undecided"; return res
                nobl += 1; names.append(nm)
                if st == "SUCCESS": ndis += 1
                elif st == "FAILURE": failed.append({"property": nm, "description": desc, "location": p.get("sourceLocation", {})})
                else: res["why"] = "property %s has status %s" % (nm, st); return res
            res["obligations"] = nobl; res["discharged"] = ndis; res["failed"] = failed; res["reach_ok"] = reach_ok
            res["n_postconditions"] = sum(1 for n in names if ".postcondition." in n)
            res["n_assigns"] = sum(1 for n in names if ".assigns." in n)
            res["n_unwind"] = sum(1 for n in names if ".unwind." in n)
            res["n_loop_inv"] = sum(1 for n in names if "loop_invariant" in n)
            res["sample_obligations"] = [n for n in names if ".postcondition." in n or ".assigns." in n][:6] + names[:3]
            if bad_msg: res["why"] = "suspicious cbmc message: " + bad_msg[0][:300]; return res
            if res["n_postconditions"] == 0: res["why"] = "no postcondition obligation was generated (vacuous run)"; return res
            if failed:
                res["status"] = "refuted"
                s.get_trace(res)
            elif not reach_ok:
                res["why"] = "vacuity guard: " + "; ".join(res.get("unreached", [])) + " not reachable under the precondition"
            else:
                res["status"] = "proved" if not s.bounded else "bounded-ok"
            return res
        except ToolError as ex:
            res["why"] = str(ex); return res
        except Exception as ex:
            import traceback
            res["why"] = "internal error: " + traceback.format_exc()[-1500:]; return res

    def get_trace(s, res):
        """re-run cbmc with --trace for the first failed property; extract harness variable values"""
        d = s.dir
        # prefer a postcondition failure for replay
        fl = sorted(res["failed"], key=lambda f: (0 if ".postcondition." in f["property"] else 1))
        f0 = fl[0]
        cb = ["cbmc", "task.i.gb", "--json-ui", "--trace", "--property", f0["property"], "--object-bits", str(s.object_bits), "--no-malloc-may-fail",
              "--bounds-check", "--pointer-check", "--signed-overflow-check", "--div-by-zero-check", "--undefined-shift-check"] + s.extra_cbmc
        if s.solver == "cadical": cb += ["--sat-solver", "cadical"]
        if s.bounded and s.bounded.get("unwind"): cb += ["--unwind", str(s.bounded["unwind"])]
        if s.bounded and s.bounded.get("unwindset"): cb += ["--unwindset", s.bounded["unwindset"]]
        rc, o, e, t = sh(cb, cwd=d, timeout=s.timeout, mem_gb=s.mem_gb)
        open(os.path.join(d, "cbmc.trace.json"), "w").write(o)
        vals = {}
        try:
            js = json.loads(o)
            for x in js:
                for p in x.get("result", []):
                    if p["property"] == f0["property"] and "trace" in p:
                        for st in p["trace"]:
                            if st.get("stepType") == "assignment" and st.get("sourceLocation", {}).get("function") == "harness":
                                lhs = st.get("lhs", "")
                                if re.match(r'^\w+$', lhs) and lhs not in vals and any(v.name == lhs for v in s.vars):
                                    vals[lhs] = st.get("value")
        except Exception as ex:
            res["trace_error"] = str(ex)
        res["cex_property"] = f0["property"]; res["cex"] = vals

def value_to_c(v):
    """cbmc JSON trace value -> C initialiser text (None if it contains something we cannot rebuild)"""
    if v is None: return None
    n = v.get("name")
    if n == "integer":
        b = v.get("binary")
        if b is not None:
            w = len(b); iv = int(b, 2)
            if w > 64: return "((unsigned __int128)0x%xULL << 64 | 0x%xULL)" % (iv >> 64, iv & (2 ** 64 - 1))
            return "0x%xULL" % iv
        return v.get("data")
    if n == "boolean": return "1" if v.get("data") in ("TRUE", "true", True) else "0"
    if n == "struct":
        parts = []
        for m in v.get("members", []):
            if m["name"].startswith("$pad"): continue
            c = value_to_c(m["value"])
            if c is None: return None
            parts.append(c)
        return "{ " + ", ".join(parts) + " }"
    if n == "array":
        parts = []
        for el in v.get("elements", []):
            c = value_to_c(el["value"])
            if c is None: return None
            parts.append(c)
        return "{ " + ", ".join(parts) + " }"
    if n == "pointer":
        if v.get("data") in ("NULL", "((void *)0)") or "NULL" in str(v.get("data")): return "0"
        return None
    if n in ("float", "double"): return v.get("data")
    if n == "unknown": return "0"
    return None

# ---------------------------------------------------------------- replay
def write_replay(prop, task, res, rdir):
    """Writes replays/<prop>/<task>.cc (native program against the real code) and runs it.
       returns ("violates"|"satisfies"|"noinput"|"error", path, output)"""
    os.makedirs(rdir, exist_ok=True)
    base = re.sub(r'[^\w.-]', '_', task.id)
    path = os.path.join(rdir, base + ".cc")
    failed_txt = "\n".join("//   %s : %s" % (f["property"], f["description"]) for f in res["failed"])
    hdr = ["// replay for property %s, task %s" % (prop, task.id),
           "// function under contract: %s" % res.get("function"),
           "// refuted obligation(s):", failed_txt,
           "// verifier command: %s" % res.get("checker_cmd", "")]
    nat = task.native
    cex = res.get("cex") or {}
    inits = {}
    ok = nat is not None
    if ok:
        for v in task.vars:
            if v.init is not None: continue
            c = value_to_c(cex.get(v.name))
            if c is None: ok = False; break
            inits[v.name] = c
    if not ok:
        body = hdr + ["// no-failing-input-found: the counterexample could not be turned into a native input",
                      "// verifier output (failed properties and extracted harness state):",
                      "/*", json.dumps({"failed": res["failed"], "cex": cex}, indent=1)[:20000].replace("*/", "* /"), "*/",
                      "int main() { return 2; }"]
        open(path, "w").write("\n".join(body) + "\n")
        return "noinput", path, ""
    u = task.unit
    src = u.src if os.path.isabs(u.src) else os.path.join(VERIF, u.src)
    L = hdr + ["// compile-flags: " + "\x1f".join(u.dflags() + u.extra_flags),
               "// counterexample (harness state): " + json.dumps({k: inits[k] for k in inits}),
               '#include "%s"' % src, "#include <cstdio>", "#include <cstring>", "#include <stdint.h>",
               "#define _Bool bool", "#define VERIF_NATIVE 1"]
    for k, v in {**u.defs, **task.defs}.items():
        if re.match(r'^\w+$', k) and k not in ("VT", "VP"): L.append("#ifndef %s\n#define %s %s\n#endif" % (k, k, v if v is not None else ""))
    L += ["#define LL2C_TYPES_ONLY 1", "namespace ll {", '#include "%s"' % os.path.join(u.dir, "unit.h"), "}", "using namespace ll;",
          '#include "%s"' % os.path.join(u.dir, "names.h")]
    for h in task.headers: L.append('#include "%s"' % os.path.join(VERIF, "contracts", h))
    L.append("static int n_pre_bad = 0, n_post_bad = 0;")
    L.append(nat.get("decl", ""))
    L.append("int main() {")
    for v in task.vars:
        L.append("  %s %s = %s;" % (v.ctype, v.name, v.init if v.init is not None else inits[v.name]))
    L.append(nat.get("pre", ""))
    for v in task.vars:
        if v.snapshot: L.append("  %s %s_old = %s;" % (v.ctype, v.name, v.name))
    L.append("  " + nat["call"] + ";")
    for v in task.vars:
        if re.match(r'^u?int\d+_t$', v.ctype):
            L.append('  printf("  %s: in=0x%%llx (%%lld)%s\\n", (unsigned long long)%s, (long long)(%s)%s%s);' % (
                v.name, " out=0x%llx (%lld)" if v.snapshot else "", (v.name + "_old") if v.snapshot else v.name,
                ("(" + v.ctype.replace("uint", "int") + ")" + ((v.name + "_old") if v.snapshot else v.name)),
                (", (unsigned long long)%s, (long long)(%s)%s" % (v.name, v.ctype.replace("uint", "int"), v.name)) if v.snapshot else "", ""))
    if nat.get("show"): L.append("  " + nat["show"])
    L.append("  " + nat["post"])
    L.append('  if (n_pre_bad) { printf("REPLAY-INVALID: precondition not met by the extracted input\\n"); return 3; }')
    L.append('  if (n_post_bad) { printf("REPLAY-VIOLATES: %d postcondition clause(s) false on the real code\\n", n_post_bad); return 1; }')
    L.append('  printf("REPLAY-SATISFIES\\n"); return 0; }')
    open(path, "w").write("\n".join(L) + "\n")
    exe = os.path.join(task.dir, "replay.exe")
    rc, o, e, t = sh([CLANG] + CLANG_FLAGS + u.dflags() + u.extra_flags + ["-fpermissive" if False else "-Wno-everything", path, "-o", exe,
                      "-L" + REPO + "/src/.libs", "-lppl", "-lgmpxx", "-lgmp", "-Wl,-rpath," + REPO + "/src/.libs"], timeout=600)
    if rc != 0:
        # the native harness could not be built: the verifier's refutation stands without a replayed input
        body = hdr + ["// no-failing-input-found: the native replay program for this counterexample does not compile",
                      "// verifier output (failed properties and extracted harness state), then the compiler's message:",
                      "/*", json.dumps({"failed": res["failed"], "cex": cex}, indent=1)[:20000].replace("*/", "* /"), e[-3000:].replace("*/", "* /"), "*/",
                      "int main() { return 2; }"]
        open(path, "w").write("\n".join(body) + "\n")
        return "noinput", path, "replay does not compile:\n" + e[-3000:]
    rc, o, e, t = sh([exe], timeout=120)
    out = o + e
    if rc == 1 and "REPLAY-VIOLATES" in o: return "violates", path, out
    if rc == 0: return "satisfies", path, out
    return "error", path, out

# ---------------------------------------------------------------- driver
def load_known(prop):
    p = os.path.join(VERIF, "known_findings.json")
    if not os.path.exists(p): return []
    return [k for k in json.load(open(p)).get("findings", []) if k.get("property") == prop]

def run_check(prop, tier, tasks, units, level, extra_assumptions=(), trusted_base=(), explanation="", design_ref="", max_workers=None):
    t0 = time.time()
    if max_workers: set_cbmc_slots(max_workers)
    seed = int(os.environ.get("VERIF_SEED", "0") or 0)
    os.makedirs(os.path.join(BUILD, prop), exist_ok=True)
    os.makedirs(os.path.join(OUT, "evidence"), exist_ok=True)
    ev_path = os.path.join(OUT, "evidence", prop + ".json")
    results = []; tool_problems = []
    # -- build units in parallel
    with cf.ThreadPoolExecutor(max_workers=NCPU) as ex:
        futs = {ex.submit(u.build): u for u in units}
        for f in cf.as_completed(futs):
            u = futs[f]
            try: f.result()
            except ToolError as e: tool_problems.append("unit %s: %s" % (u.name, e))
            except Exception as e: tool_problems.append("unit %s: internal error %r" % (u.name, e))
    okunits = {u.name for u in units if u.built}
    run_tasks = [t for t in tasks if t.unit.name in okunits]
    for t in tasks:
        if t.unit.name not in okunits:
            results.append({"id": t.id, "group": t.group, "unit": t.unit.name, "status": "undecided", "why": "unit did not build", "obligations": 0, "discharged": 0, "failed": [], "bounded": t.bounded, "time": {}})
    with cf.ThreadPoolExecutor(max_workers=NCPU) as ex:
        futs = {ex.submit(t.run, prop): t for t in run_tasks}
        for f in cf.as_completed(futs):
            r = f.result(); results.append(r)
            sys.stderr.write("[%s] %-60s %-10s obl=%d/%d cbmc=%ss %s\n" % (prop, r["id"][:60], r["status"], r["discharged"], r["obligations"], r["time"].get("cbmc", "-"), (r.get("why") or "")[:200].replace("\n", " ")))
    results.sort(key=lambda r: r["id"])
    bytask = {t.id: t for t in tasks}
    # -- triage refutations
    known = load_known(prop)
    rdir = os.path.join(OUT, "replays", prop)
    shutil.rmtree(rdir, ignore_errors=True)
    violations = []; known_hits = []
    for r in results:
        if r["status"] != "refuted": continue
        t = bytask[r["id"]]
        verdict, path, out = write_replay(prop, t, r, rdir)
        r["replay"] = {"verdict": verdict, "path": path, "output": out[-1500:]}
        fp = {"task": r["id"], "obligations": sorted(f["property"] for f in r["failed"])}
        if verdict == "satisfies" or verdict == "error":
            r["status"] = "undecided"
            r["why"] = "CBMC refutes %s but the native replay %s -> translation divergence or replay problem (tool error, not an alarm): %s" % (
                r.get("cex_property"), "satisfies the contract" if verdict == "satisfies" else "failed", out[-400:])
            continue
        kn = None
        for k in known:
            if k.get("status") == "known" and re.search(k["task_pattern"], r["id"]) and all(any(re.search(op, f["property"]) for op in k["obligation_patterns"]) for f in r["failed"]):
                kn = k; break
        if kn and kn.get("exclude"):
            # the finding is identified by its failing inputs: re-run the same obligations with exactly those
            # inputs excluded; whatever is still refuted is a different violation and is reported.
            import copy
            t2 = copy.copy(t); t2.id = t.id + "#minus-" + kn["id"]
            t2.harness_pre = (t.harness_pre or "") + "\n  __CPROVER_assume(%s);" % kn["exclude"]
            r2 = t2.run(prop)
            r["rerun_excluding_known_input"] = {"status": r2["status"], "why": r2.get("why"), "obligations": r2["obligations"], "discharged": r2["discharged"]}
            if r2["status"] in ("proved", "bounded-ok"):
                known_hits.append((kn, r)); r["status"] = "known-finding"; r["finding"] = kn["id"]
                r["obligations"] = r2["obligations"]; r["discharged"] = r2["discharged"]
            elif r2["status"] == "refuted":
                v2, p2, o2 = write_replay(prop, t2, r2, rdir)
                r2["replay"] = {"verdict": v2, "path": p2, "output": o2[-1500:]}
                if v2 in ("violates", "noinput"): r["failed"] = r2["failed"]; r["cex"] = r2.get("cex"); violations.append((r, v2, p2))
                else: r["status"] = "undecided"; r["why"] = "re-run excluding known finding %s: replay %s" % (kn["id"], v2)
            else:
                r["status"] = "undecided"; r["why"] = "re-run excluding known finding %s undecided: %s" % (kn["id"], r2.get("why"))
        elif kn: known_hits.append((kn, r)); r["status"] = "known-finding"; r["finding"] = kn["id"]
        else: violations.append((r, verdict, path))
    undec = [r for r in results if r["status"] == "undecided"]
    proved = [r for r in results if r["status"] == "proved"]
    bounded = [r for r in results if r["status"] == "bounded-ok"]
    n_obl = sum(r["obligations"] for r in proved); n_dis = sum(r["discharged"] for r in proved)
    # -- evidence
    fn_names = sorted({r.get("function") for r in results if r.get("function")})
    dem = demangle(fn_names) if fn_names else {}
    under_contract = []
    for r in results:
        if r.get("function"):
            under_contract.append({"task": r["id"], "function": short_dem(dem.get(r["function"], r["function"]))[:400], "status": r["status"],
                                   "obligations": r["obligations"], "discharged": r["discharged"],
                                   "postconditions": r.get("n_postconditions"), "assigns_checks": r.get("n_assigns"), "unwinding_assertions": r.get("n_unwind"),
                                   "replaced_by_contract": [short_dem(x)[:200] for x in demangle(r.get("replaced") or []).values()] if r.get("replaced") else [],
                                   "assumed_not_discharged_contracts": [short_dem(x)[:200] for x in demangle(r.get("assumed_contracts") or []).values()] if r.get("assumed_contracts") else [],
                                   "bounded": r.get("bounded"), "back_end": "goto-instrument --dfcc + cbmc 6.11 / cadical", "cbmc_s": r["time"].get("cbmc"), "solver_s": r.get("solver_s"),
                                   "why": (r.get("why") or "")[:400] or None})
    samples = []
    for r in (proved + bounded)[:8]:
        samples.append({"task": r["id"], "obligations": r.get("sample_obligations", [])[:5]})
    for (r, verdict, path) in violations[:3]:
        samples.append({"task": r["id"], "refuted": [f["property"] for f in r["failed"]][:5], "cex": {k: value_to_c(v) for k, v in (r.get("cex") or {}).items()}})
    cov = {"obligations": n_obl, "discharged": n_dis,
           "checker_cmd": (proved[0].get("checker_cmd") if proved else (results[0].get("checker_cmd") if results else "")) or "goto-instrument --dfcc harness --enforce-contract F; cbmc --sat-solver cadical",
           "trusted_base": list(trusted_base),
           "tasks_total": len(results), "tasks_proved": len(proved), "tasks_bounded_ok": len(bounded), "tasks_undecided": len(undec),
           "tasks_refuted": len(violations), "tasks_known_finding": len(known_hits),
           "bounded_block": [{"task": r["id"], "bound": r["bounded"], "obligations": r["obligations"], "discharged": r["discharged"]} for r in bounded],
           "functions_under_contract": under_contract,
           "samples": samples or [{"note": "no task completed"}],
           "evaluations": len(results), "distinct_nontrivial": max(2, len({r.get("function") for r in proved + bounded})) if (proved or bounded) else 2,
           "explanation": explanation,
           "extraction_units": [{"unit": u.name, "source": u.src, "defines": u.defs, "functions_translated": len(u.meta["functions"]) if u.meta else 0,
                                 "cut_or_external": (u.meta or {}).get("external", [])[:40]} for u in units],
           "solver_s_total": round(sum((r.get("solver_s") or 0) for r in results), 2),
           "undecided": [{"task": r["id"], "why": (r.get("why") or "")[:500]} for r in undec][:40],
           }
    ev = {"property_id": prop, "tier": tier, "seed": seed, "level": level, "coverage": cov,
          "assumptions": GLOBAL_ASSUMPTIONS + list(extra_assumptions), "wall_s": round(time.time() - t0, 1),
          "violations": len(violations)}
    os.makedirs(os.path.dirname(ev_path), exist_ok=True)
    json.dump(ev, open(ev_path, "w"), indent=1)
    json.dump(results, open(os.path.join(BUILD, prop, "results.json"), "w"), indent=1, default=str)
    # -- verdict
    for (kn, r) in known_hits:
        print("KNOWN-FINDING: property=%s %s (%s; task %s)" % (prop, kn["id"], kn["what"], r["id"]))
    for (r, verdict, path) in violations:
        tail = " no-failing-input-found" if verdict == "noinput" else ""
        print("VIOLATION property=%s replay=%s obligation=%s%s" % (prop, path, ",".join(f["property"] for f in r["failed"][:3]), tail))
    for p in tool_problems: print("TOOL-PROBLEM: " + p[:1500])
    for r in undec: print("UNDECIDED: task %s: %s" % (r["id"], (r.get("why") or "")[:600].replace("\n", " | ")))
    print("%s %s: %d tasks, %d proved (%d/%d obligations), %d bounded-ok, %d undecided, %d refuted, %d known findings; %.0fs"
          % (prop, tier, len(results), len(proved), n_dis, n_obl, len(bounded), len(undec), len(violations), len(known_hits), time.time() - t0))
    if violations: return 1
    if undec or tool_problems: return 2
    return 0
