#!/usr/bin/env python3
"""selftest.py --setup : offline sanity of the tool chain (run by MANIFEST.setup_cmd)."""
import subprocess, sys, os, shutil
need = ["clang++-14", "opt-14", "goto-cc", "goto-instrument", "cbmc", "c++filt"]
missing = [t for t in need if not shutil.which(t)]
if missing: print("missing tools:", missing); sys.exit(1)
os.makedirs("/verif/build", exist_ok=True); os.makedirs("/verif/evidence", exist_ok=True)
print("tool chain present:", ", ".join(need)); sys.exit(0)
