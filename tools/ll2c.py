#!/usr/bin/env python3
"""ll2c.py -- transliterate a subset of textual LLVM-14 IR (clang -O0 + mem2reg)
into C that CBMC's C front end accepts.

One C function per IR function (same mangled name), one C statement per IR
instruction, basic blocks -> labels, br/switch -> goto, phi -> parallel copies
on the incoming edges.  Integers are unsigned in the C text and are cast to the
signed type exactly where the IR says the operation is signed (sdiv srem ashr
icmp s*, sext, and add/sub/mul/shl carrying `nsw`), so that CBMC's
--signed-overflow-check applies to the arithmetic that is signed in the C++
source and to nothing else.

Exceptional control flow is dropped (DESIGN.md D2): `invoke` = call + normal
edge; landing-pad blocks are not emitted; __cxa_throw & co. = LL_THROW().
Anything outside the subset aborts with exit status 2 (D6) -- never a verdict.

usage: ll2c.py IN.ll --roots NAME[,NAME...] [--cut NAME,...] [-o OUT.c] [--meta OUT.json]
  roots: mangled names (or `re:<regex on mangled name>`); only their call-graph
         closure is emitted.  `--roots @all` emits everything.
  cut:   functions whose bodies are NOT emitted (prototype only) even if defined.
"""
import re, sys, json, argparse, subprocess

class Unsupported(Exception):
    pass

# ------------------------------------------------------------------ types
class T: pass
class TInt(T):
    def __init__(s, n): s.n = n
    def c(s):
        if s.n == 1: return "_Bool"
        if s.n in (8, 16, 32, 64): return "uint%d_t" % s.n
        if s.n == 128: return "unsigned __int128"
        raise Unsupported("integer width %d" % s.n)
    def sc(s):
        if s.n == 1: return "_Bool"
        if s.n in (8, 16, 32, 64): return "int%d_t" % s.n
        if s.n == 128: return "__int128"
        raise Unsupported("integer width %d" % s.n)
class TVoid(T):
    def c(s): return "void"
class TFloat(T):
    def __init__(s, k): s.k = k
    def c(s): return {"float": "float", "double": "double", "x86_fp80": "long double"}[s.k]
class TPtr(T):
    def __init__(s, to): s.to = to
    def c(s):
        if isinstance(s.to, (TFunc, TVoid)): return "void*"
        return s.to.c() + "*"
class TNamed(T):
    def __init__(s, name): s.name = name
    def c(s): return "struct " + cid(s.name)
class TArr(T):
    def __init__(s, n, el): s.n, s.el = n, el
    def c(s):
        k = "LT_" + tkey(s); G.lits.setdefault(k, s); return "struct " + k
class TStruct(T):
    def __init__(s, fields, packed, opaque=False): s.fields, s.packed, s.opaque = fields, packed, opaque
    def c(s):
        k = "LT_" + tkey(s); G.lits.setdefault(k, s); return "struct " + k
class TFunc(T):
    def __init__(s, ret, args, vararg=False): s.ret, s.args, s.vararg = ret, args, vararg
    def c(s): return "void"
class TVec(T):
    def __init__(s, n, el): s.n, s.el = n, el
    def c(s): raise Unsupported("vector type")

def tkey(t):
    if isinstance(t, TInt): return "i%d" % t.n
    if isinstance(t, TVoid): return "v"
    if isinstance(t, TFloat): return t.k
    if isinstance(t, TPtr): return "p"          # all pointers alike for layout
    if isinstance(t, TNamed): return "N_" + cid(t.name)
    if isinstance(t, TArr): return "A%d_%s" % (t.n, tkey(t.el))
    if isinstance(t, TStruct): return ("P" if t.packed else "S") + "_".join(tkey(f) for f in t.fields) + "_E"
    if isinstance(t, TFunc): return "fn"
    raise Unsupported("type key")

def cid(name):
    name = name.strip('"')
    return re.sub(r'[^A-Za-z0-9_]', lambda m: "_%02x" % ord(m.group(0)), name)

NAME = r'("(?:[^"\\]|\\.)*"|[-a-zA-Z$._0-9]+)'
RX_LOCAL = re.compile(r'%' + NAME)
RX_GLOBAL = re.compile(r'@' + NAME)
RX_CACHE = {}
def rx(p):
    r = RX_CACHE.get(p)
    if r is None: r = RX_CACHE[p] = re.compile(p)
    return r

PARAM_ATTRS = rx(r'(noundef|nonnull|signext|zeroext|noalias|nocapture|readonly|writeonly|returned|immarg|inreg|nest|readnone|nofree|swiftself|swifterror)\b')
PARAM_ATTRS_N = rx(r'(align|dereferenceable|dereferenceable_or_null)\s*(\(\d+\)|\d+)')
PARAM_ATTRS_T = rx(r'(sret|byval|byref|inalloca|preallocated|elementtype)\(')
LINKAGE = rx(r'((linkonce_odr|linkonce|internal|weak_odr|weak|external|available_externally|private|dso_local|dso_preemptable|hidden|protected|default|unnamed_addr|local_unnamed_addr|thread_local(\([a-z]+\))?|extern_weak|appending|common|externally_initialized)\s+)*')

class P:
    """tokenizer / recursive descent over one logical IR line"""
    def __init__(s, text): s.t = text; s.i = 0; s.byval = None
    def ws(s):
        t = s.t; i = s.i; n = len(t)
        while i < n and t[i] in " \t": i += 1
        s.i = i
    def peek(s, lit): s.ws(); return s.t.startswith(lit, s.i)
    def eat(s, lit):
        s.ws()
        if s.t.startswith(lit, s.i): s.i += len(lit); return True
        return False
    def eatw(s, word):
        s.ws()
        if s.t.startswith(word, s.i):
            j = s.i + len(word)
            if j >= len(s.t) or not (s.t[j].isalnum() or s.t[j] == '_'):
                s.i = j; return True
        return False
    def need(s, lit):
        if not s.eat(lit): raise Unsupported("expected %r at %r" % (lit, s.t[s.i:s.i + 50]))
    def m(s, r):
        s.ws(); mm = (rx(r) if isinstance(r, str) else r).match(s.t, s.i)
        if mm: s.i = mm.end()
        return mm
    def rest(s): s.ws(); return s.t[s.i:]
    def local(s):
        mm = s.m(RX_LOCAL)
        if not mm: raise Unsupported("expected local at %r" % s.t[s.i:s.i + 40])
        return mm.group(1)
    def type(s):
        s.ws()
        if s.eatw("void"): t = TVoid()
        elif (mm := s.m(r'(float|double|x86_fp80)\b')): t = TFloat(mm.group(1))
        elif (mm := s.m(r'i(\d+)\b')): t = TInt(int(mm.group(1)))
        elif (mm := s.m(RX_LOCAL)): t = TNamed(mm.group(1))
        elif s.eat("["):
            n = int(s.m(r'\d+').group(0)); s.need("x"); el = s.type(); s.need("]"); t = TArr(n, el)
        elif s.peek("<{") or s.peek("{"):
            packed = s.eat("<{")
            if not packed: s.need("{")
            fields = []
            if not s.peek("}"):
                while True:
                    fields.append(s.type())
                    if not s.eat(","): break
            s.need("}")
            if packed: s.need(">")
            t = TStruct(fields, packed)
        elif s.eat("<"):
            n = int(s.m(r'\d+').group(0)); s.need("x"); el = s.type(); s.need(">"); t = TVec(n, el)
        elif s.eatw("opaque"): t = TStruct([], False, opaque=True)
        elif s.eatw("ptr"): raise Unsupported("opaque pointers (need typed-pointer IR)")
        else: raise Unsupported("type at %r" % s.t[s.i:s.i + 50])
        while True:
            s.ws()
            if s.eat("*"): t = TPtr(t)
            elif s.peek("("):
                s.need("("); args = []; va = False
                if not s.peek(")"):
                    while True:
                        if s.eat("..."): va = True; break
                        args.append(s.type())
                        if not s.eat(","): break
                s.need(")"); t = TFunc(t, args, va)
            else: break
        return t
    def attrs(s):
        while True:
            if s.m(PARAM_ATTRS): continue
            if s.m(PARAM_ATTRS_N): continue
            mm = s.m(PARAM_ATTRS_T)
            if mm:
                ty = s.type(); s.need(")")
                if mm.group(1) in ("byval",): s.byval = ty
                continue
            break
    def value(s, ty):
        """operand -> C expression (string)"""
        s.ws()
        if (mm := s.m(RX_LOCAL)): return "v_" + cid(mm.group(1))
        if (mm := s.m(RX_GLOBAL)):
            n = cid(mm.group(1)); G.refs.add(n)
            return "((%s)&%s)" % (ty.c() if isinstance(ty, TPtr) else "void*", n)
        if (mm := s.m(r'-?\d+\.\d*(e[+-]?\d+)?')) and isinstance(ty, TFloat):
            return "((%s)%s)" % (ty.c(), mm.group(0))
        if (mm := s.m(r'0x[KLMHR]?[0-9A-Fa-f]+')) and isinstance(ty, TFloat):
            txt = mm.group(0)
            if ty.k == "double" and re.match(r'0x[0-9A-Fa-f]{16}$', txt):
                return "LL_f64_bits(0x%sULL)" % txt[2:]
            if ty.k == "float" and re.match(r'0x[0-9A-Fa-f]{16}$', txt):
                return "((float)LL_f64_bits(0x%sULL))" % txt[2:]
            raise Unsupported("float literal %s" % txt)
        if (mm := s.m(r'-?\d+')):
            v = int(mm.group(0))
            if isinstance(ty, TInt):
                if ty.n == 1: return "1" if v else "0"
                v &= (1 << ty.n) - 1
                if ty.n == 128:
                    if v < 2 ** 64: return "((unsigned __int128)%dULL)" % v
                    return "((((unsigned __int128)%dULL)<<64)|%dULL)" % (v >> 64, v & (2 ** 64 - 1))
                return "((%s)%dULL)" % (ty.c(), v)
            if isinstance(ty, TFloat): return "((%s)%d)" % (ty.c(), v)
            raise Unsupported("integer literal of non-integer type")
        if s.eatw("true"): return "1"
        if s.eatw("false"): return "0"
        if s.eatw("null"): return "((%s)0)" % ty.c()
        if s.eatw("undef") or s.eatw("poison"):
            r = G.resolve(ty)
            if isinstance(r, (TStruct, TArr)): return "LL_UNDEF_AGG"
            if isinstance(r, TPtr): return "((%s)LL_undef_ptr())" % ty.c()
            if isinstance(r, TFloat): return "((%s)LL_undef_f())" % ty.c()
            return "LL_undef_u%d()" % r.n
        if s.eatw("zeroinitializer"):
            r = G.resolve(ty)
            if isinstance(r, (TStruct, TArr)): return "{0}"
            if isinstance(r, TPtr): return "((%s)0)" % ty.c()
            return "0"
        if s.peek("{") or s.peek("<{") or s.peek("["):
            close = "}>" if s.peek("<{") else ("}" if s.peek("{") else "]")
            s.eat("<{") or s.eat("{") or s.eat("[")
            items = []
            if not s.peek(close):
                while True:
                    it = s.type(); items.append(s.value(it))
                    if not s.eat(","): break
            s.need(close)
            inner = "{ " + ", ".join(items) + " }"
            return "{ " + inner + " }" if close == "]" else inner
        if (mm := s.m(r'c"((?:[^"\\]|\\[0-9A-Fa-f]{2})*)"')):
            raw = mm.group(1); bs = []; i = 0
            while i < len(raw):
                if raw[i] == "\\": bs.append(int(raw[i + 1:i + 3], 16)); i += 3
                else: bs.append(ord(raw[i])); i += 1
            return "{ { " + ", ".join(map(str, bs)) + " } }"
        for kw in ("bitcast", "getelementptr", "inttoptr", "ptrtoint", "addrspacecast"):
            if s.peek(kw): return s.constexpr()
        raise Unsupported("operand at %r" % s.t[s.i:s.i + 60])
    def constexpr(s):
        if s.eatw("bitcast") or s.eatw("inttoptr") or s.eatw("ptrtoint"):
            s.need("("); t1 = s.type(); v = s.value(t1); s.need("to"); t2 = s.type(); s.need(")")
            return "((%s)%s)" % (t2.c(), v)
        if s.eatw("getelementptr"):
            s.eatw("inbounds"); s.need("("); bt = s.type(); s.need(","); pt = s.type(); pv = s.value(pt)
            idx = []
            while s.eat(","):
                s.eatw("inrange"); it = s.type(); idx.append((it, s.value(it)))
            s.need(")")
            e, _ = gep_expr(bt, "((%s*)%s)" % (bt.c(), pv), idx)
            return e
        raise Unsupported("constant expression " + s.rest()[:40])

def const_index(iv):
    m = re.match(r'\(\(uint(?:32|64)_t\)(\d+)ULL\)$', iv) or re.match(r'(\d+)$', iv)
    return int(m.group(1)) if m else None

def gep_expr(bt, pv, idx):
    """returns (C expression of the address, pointee type)"""
    e = pv; cur = bt
    first = idx[0][1]
    if const_index(first) != 0:
        ft = idx[0][0]
        e = "(%s + (%s)%s)" % (e, "int64_t" if ft.n == 64 else ft.sc(), first)
    if len(idx) == 1: return e, cur
    e = "(*%s)" % e
    for (it, iv) in idx[1:]:
        cur = G.resolve(cur)
        if isinstance(cur, TStruct):
            k = const_index(iv)
            if k is None: raise Unsupported("non-constant struct index")
            e = "%s.f%d" % (e, k); cur = cur.fields[k]
        elif isinstance(cur, TArr):
            e = "%s.a[(%s)%s]" % (e, it.sc(), iv); cur = cur.el
        else: raise Unsupported("getelementptr into scalar")
    return "(&%s)" % e, cur

class Globals:
    def __init__(s):
        s.types = {}; s.lits = {}; s.refs = set()
    def resolve(s, t):
        while isinstance(t, TNamed):
            if t.name not in s.types: raise Unsupported("unknown type %" + t.name)
            t = s.types[t.name]
        return t
G = Globals()

def emit_types(out):
    def reg(t):
        if isinstance(t, (TArr, TStruct)): t.c()
        if isinstance(t, TArr): reg(t.el)
        if isinstance(t, TStruct):
            for f in t.fields: reg(f)
    for n in list(G.types): reg(G.types[n])
    while True:
        before = len(G.lits)
        for k in list(G.lits): reg(G.lits[k])
        if len(G.lits) == before: break
    nodes = {}
    for n, t in G.types.items(): nodes[cid(n)] = t
    for k, t in G.lits.items(): nodes[k] = t
    for n in nodes: out.append("struct %s;" % n)
    done = set()
    def deps(t, acc):
        if isinstance(t, TNamed): acc.append(cid(t.name))
        elif isinstance(t, (TArr, TStruct)): acc.append("LT_" + tkey(t))
    def emit(n):
        if n in done: return
        done.add(n); t = nodes[n]; acc = []
        if isinstance(t, TArr): deps(t.el, acc)
        else:
            for f in t.fields: deps(f, acc)
        for d in acc: emit(d)
        if isinstance(t, TArr): body = "%s a[%d];" % (t.el.c(), max(t.n, 1))
        elif getattr(t, "opaque", False): return
        else: body = " ".join("%s f%d;" % (f.c(), i) for i, f in enumerate(t.fields)) or "char _empty;"
        out.append("struct %s%s { %s };" % ("__attribute__((packed)) " if getattr(t, "packed", False) else "", n, body))
    for n in list(nodes): emit(n)

BIN = {"add": "+", "sub": "-", "mul": "*", "and": "&", "or": "|", "xor": "^", "shl": "<<", "udiv": "/", "urem": "%", "lshr": ">>"}
SBIN = {"sdiv": "/", "srem": "%", "ashr": ">>"}
FBIN = {"fadd": "+", "fsub": "-", "fmul": "*", "fdiv": "/"}
ICMP = {"eq": ("==", 0), "ne": ("!=", 0), "ugt": (">", 0), "uge": (">=", 0), "ult": ("<", 0), "ule": ("<=", 0),
        "sgt": (">", 1), "sge": (">=", 1), "slt": ("<", 1), "sle": ("<=", 1)}
FCMP = {"oeq": "==", "ogt": ">", "oge": ">=", "olt": "<", "ole": "<=", "une": "!="}
# functions that never return normally (exceptional exits, aborts): DESIGN.md D2
NORETURN = ("__cxa_allocate_exception", "__cxa_throw", "__cxa_rethrow", "_Unwind_Resume", "__cxa_bad_cast", "__cxa_bad_typeid",
            "__cxa_pure_virtual", "_ZSt9terminatev", "abort", "__assert_fail", "__clang_call_terminate",
            "_ZSt17__throw_bad_allocv", "_ZSt20__throw_length_errorPKc", "_ZSt19__throw_logic_errorPKc",
            "_ZSt24__throw_out_of_range_fmtPKcz", "_ZSt20__throw_out_of_rangePKc",
            "_ZSt24__throw_invalid_argumentPKc", "_ZSt21__throw_runtime_errorPKc",
            "_ZSt28__throw_bad_array_new_lengthv", "_ZSt25__throw_bad_function_callv",
            "__cxa_throw_bad_array_new_length", "exit", "_exit")
DROP_CALLS = ("__cxa_atexit", "llvm_2elifetime", "llvm_2edbg", "llvm_2eassume", "llvm_2eexperimental_2enoalias",
              "llvm_2einvariant", "llvm_2edonothing", "llvm_2eprefetch")

class Func:
    def __init__(s, header, body):
        s.header, s.body = header, body
        p = P(header); p.need("define"); p.m(LINKAGE); p.attrs()
        s.ret = p.type(); s.name = cid(p.m(RX_GLOBAL).group(1)); p.need("(")
        s.params = []
        if not p.peek(")"):
            while True:
                if p.eat("..."): raise Unsupported("variadic definition %s" % s.name)
                pt = p.type(); p.byval = None; p.attrs()
                nm = "v_" + cid(p.local())
                s.params.append((pt, nm, p.byval))
                if not p.eat(","): break
        p.need(")")
        s.personality = "personality" in p.rest()
        s.text = "\n".join(body)
        s.callees = set(); s.throws = False
    def sig(s, names=True):
        ps = ", ".join(("%s %s" % (t.c(), n)) if names else t.c() for t, n, _ in s.params) or "void"
        return "%s %s(%s)" % (s.ret.c(), s.name, ps)

def translate_function(F, defined, cut):
    decls = {}; code = []
    blocks = []; cur = ("%entry0", [])
    for ln in F.body:
        mm = re.match(r'^' + NAME + r':', ln)
        if mm: blocks.append(cur); cur = (mm.group(1), [])
        elif ln.strip(): cur[1].append(ln.strip())
    blocks.append(cur)
    blocks = [b for b in blocks if not (b[0] == "%entry0" and not b[1])]
    # number the entry block if unnamed: clang names it "entry" with value names kept
    labels = {b[0] for b in blocks}
    def lab(n): return "L_" + cid(n)
    # -- reachable blocks over normal edges only
    succ = {}
    for (bn, ins) in blocks:
        last = ins[-1] if ins else ""
        tg = []
        if re.match(r'(%\S+ = )?invoke ', last):
            mm2 = re.search(r'to label %' + NAME + r' unwind label', last); tg = [mm2.group(1)]
        elif last.startswith("br "):
            tg = re.findall(r'label %' + NAME, last)
        elif last.startswith("switch "):
            tg = re.findall(r'label %' + NAME, last)
        elif last.startswith("indirectbr"): raise Unsupported("indirectbr in %s" % F.name)
        succ[bn] = tg
    reach = set(); work = [blocks[0][0]]
    while work:
        b = work.pop()
        if b in reach: continue
        reach.add(b); work.extend(succ.get(b, []))
    # -- phis
    phis = {}
    for (bn, ins) in blocks:
        if bn not in reach: continue
        for ln in ins:
            mm = re.match(r'%' + NAME + r' = phi (.*)$', ln)
            if not mm: continue
            q = P(strip_meta(mm.group(2))); t = q.type(); inc = []
            while True:
                q.need("["); v = q.value(t); q.need(","); pm = q.local(); q.need("]"); inc.append((v, pm))
                if not q.eat(","): break
            phis.setdefault(bn, []).append(("v_" + cid(mm.group(1)), t, inc))
    def phi_moves(frm, to):
        mv = []
        for (dst, t, inc) in phis.get(to, []):
            for (v, pred) in inc:
                if pred == frm: mv.append((dst, t, v)); break
        if not mv: return ""
        s = "{ " + " ".join("%s t%d = %s;" % (t.c(), i, v) for i, (d, t, v) in enumerate(mv))
        s += " " + " ".join("%s = t%d;" % (d, i) for i, (d, t, v) in enumerate(mv)) + " } "
        return s
    prev_noreturn = False
    for (bn, ins) in blocks:
        if bn not in reach: continue
        code.append("%s: ;" % lab(bn))
        for ln in ins:
            ln = strip_meta(ln)
            dst = None
            mm = re.match(r'%' + NAME + r' = (.*)$', ln)
            if mm: dst = "v_" + cid(mm.group(1)); ln = mm.group(2)
            q = P(ln); op = q.m(r'[a-z_.0-9]+').group(0)
            def define(t, expr):
                decls[dst] = "%s %s" % (t.c(), dst); code.append("  %s = %s;" % (dst, expr))
            was_noreturn = prev_noreturn; prev_noreturn = False
            if op == "alloca":
                q.eatw("inalloca"); t = q.type()
                if q.eat(","):
                    if not q.eatw("align"): raise Unsupported("dynamic alloca in %s" % F.name)
                decls[dst + "_m"] = "%s %s_m" % (t.c(), dst)
                define(TPtr(t), "&%s_m" % dst)
            elif op == "load":
                q.eatw("atomic") and (_ for _ in ()).throw(Unsupported("atomic load in %s" % F.name))
                q.eatw("volatile"); t = q.type(); q.need(","); pt = q.type(); pv = q.value(pt)
                define(t, "*(%s*)%s" % (t.c(), pv))
            elif op == "store":
                if q.eatw("atomic"): raise Unsupported("atomic store in %s" % F.name)
                q.eatw("volatile"); t = q.type(); v = q.value(t); q.need(","); pt = q.type(); pv = q.value(pt)
                if v == "LL_UNDEF_AGG": continue
                if v.startswith("{"): v = "(%s)%s" % (t.c(), v)
                code.append("  *(%s*)%s = %s;" % (t.c(), pv, v))
            elif op in BIN or op in SBIN:
                flags = []
                while (fm := q.m(r'(nsw|nuw|exact)\b')): flags.append(fm.group(1))
                t = q.type(); a = q.value(t); q.need(","); b = q.value(t)
                if not isinstance(t, TInt): raise Unsupported("vector arithmetic in %s" % F.name)
                if t.n == 1:
                    define(t, "(_Bool)((%s %s %s) & 1)" % (a, BIN.get(op, "^"), b))
                elif op in SBIN or "nsw" in flags:
                    o = SBIN.get(op) or BIN[op]
                    if op in ("shl", "ashr"): define(t, "(%s)((%s)%s %s %s)" % (t.c(), t.sc(), a, o, b))
                    else: define(t, "(%s)((%s)%s %s (%s)%s)" % (t.c(), t.sc(), a, o, t.sc(), b))
                else:
                    define(t, "(%s)(%s %s %s)" % (t.c(), a, BIN[op], b))
            elif op in FBIN:
                q.m(r'((fast|nnan|ninf|nsz|arcp|contract|afn|reassoc)\s+)*')
                t = q.type(); a = q.value(t); q.need(","); b = q.value(t)
                define(t, "(%s %s %s)" % (a, FBIN[op], b))
            elif op == "fneg":
                t = q.type(); a = q.value(t); define(t, "(-%s)" % a)
            elif op == "icmp":
                pred = q.m(r'\w+').group(0); t = q.type(); a = q.value(t); q.need(","); b = q.value(t)
                o, sg = ICMP[pred]
                if sg and isinstance(t, TInt): define(TInt(1), "((%s)%s %s (%s)%s)" % (t.sc(), a, o, t.sc(), b))
                else: define(TInt(1), "(%s %s %s)" % (a, o, b))
            elif op == "fcmp":
                q.m(r'((fast|nnan|ninf|nsz|arcp|contract|afn|reassoc)\s+)*')
                pred = q.m(r'\w+').group(0); t = q.type(); a = q.value(t); q.need(","); b = q.value(t)
                if pred == "uno": define(TInt(1), "((%s != %s) || (%s != %s))" % (a, a, b, b))
                elif pred == "ord": define(TInt(1), "((%s == %s) && (%s == %s))" % (a, a, b, b))
                elif pred in FCMP: define(TInt(1), "(%s %s %s)" % (a, FCMP[pred], b))
                elif pred in ("ueq", "ugt", "uge", "ult", "ule"):
                    define(TInt(1), "(!(%s %s %s))" % (a, {"ueq": "!=", "ugt": "<=", "uge": "<", "ult": ">=", "ule": ">"}[pred], b))
                elif pred == "one": define(TInt(1), "((%s < %s) || (%s > %s))" % (a, b, a, b))
                else: raise Unsupported("fcmp %s" % pred)
            elif op in ("trunc", "zext", "sext", "bitcast", "ptrtoint", "inttoptr", "fpext", "fptrunc",
                        "sitofp", "uitofp", "fptosi", "fptoui"):
                t1 = q.type(); v = q.value(t1); q.need("to"); t2 = q.type()
                if op == "sext":
                    if t1.n == 1: define(t2, "(%s)(%s ? -1 : 0)" % (t2.c(), v))
                    else: define(t2, "(%s)(%s)(%s)%s" % (t2.c(), t2.sc(), t1.sc(), v))
                elif op == "trunc" and t2.n == 1: define(t2, "(_Bool)(%s & 1)" % v)
                elif op == "sitofp": define(t2, "(%s)(%s)%s" % (t2.c(), t1.sc(), v))
                elif op == "fptosi": define(t2, "(%s)(%s)%s" % (t2.c(), t2.sc(), v))
                elif op == "bitcast" and not (isinstance(t1, TPtr) and isinstance(t2, TPtr)):
                    raise Unsupported("non-pointer bitcast in %s" % F.name)
                else: define(t2, "(%s)%s" % (t2.c(), v))
            elif op == "getelementptr":
                q.eatw("inbounds"); bt = q.type(); q.need(","); pt = q.type(); pv = q.value(pt); idx = []
                while q.eat(","):
                    it = q.type(); idx.append((it, q.value(it)))
                e, pointee = gep_expr(bt, "((%s*)%s)" % (bt.c(), pv), idx)
                define(TPtr(pointee), e)
            elif op == "select":
                ct = q.type(); cv = q.value(ct); q.need(","); t = q.type(); a = q.value(t); q.need(","); t2 = q.type(); b = q.value(t2)
                define(t, "(%s ? %s : %s)" % (cv, a, b))
            elif op == "phi":
                t = q.type(); decls[dst] = "%s %s" % (t.c(), dst)
            elif op == "br":
                if q.eatw("label"):
                    tm = q.local(); code.append("  %sgoto %s;" % (phi_moves(bn, tm), lab(tm)))
                else:
                    t = q.type(); c = q.value(t); q.need(","); q.need("label"); a = q.local(); q.need(","); q.need("label"); b = q.local()
                    code.append("  if (%s) { %sgoto %s; } else { %sgoto %s; }" % (c, phi_moves(bn, a), lab(a), phi_moves(bn, b), lab(b)))
            elif op == "switch":
                t = q.type(); v = q.value(t); q.need(","); q.need("label"); d = q.local()
                cases = re.findall(r'i\d+ (-?\d+), label %' + NAME, q.rest())
                code.append("  switch ((%s)%s) {" % (t.sc(), v))
                for (cv, cl) in cases: code.append("    case %s: %sgoto %s;" % (cv, phi_moves(bn, cl), lab(cl)))
                code.append("    default: %sgoto %s; }" % (phi_moves(bn, d), lab(d)))
            elif op == "ret":
                t = q.type()
                if isinstance(t, TVoid): code.append("  return;")
                else:
                    v = q.value(t)
                    if v == "LL_UNDEF_AGG": decls["ll_undef_ret"] = "%s ll_undef_ret" % t.c(); v = "ll_undef_ret"
                    code.append("  return %s;" % v)
            elif op == "unreachable":
                if was_noreturn: code.append("  __CPROVER_assume(0);")
                else: code.append('  __CPROVER_assert(0, "LLVM unreachable reached (undefined behaviour in the source)"); __CPROVER_assume(0);')
            elif op in ("call", "invoke"):
                q.m(r'((tail|musttail|notail)\s+)?')
                q.m(r'((fast|nnan|ninf|nsz|arcp|contract|afn|reassoc)\s+)*')
                q.m(r'(ccc|fastcc|coldcc)\s+'); q.attrs(); t = q.type()
                fty = None
                if isinstance(t, TFunc): fty = t; t = t.ret
                elif isinstance(t, TPtr) and isinstance(t.to, TFunc): fty = t.to; t = t.to.ret
                cm = q.m(RX_GLOBAL)
                if cm: callee = cid(cm.group(1)); fpv = None
                else:
                    if q.peek("bitcast"):
                        # call through a constant bitcast of a known function
                        sub = q.constexpr(); callee = None; fpv = sub
                    elif q.peek("asm"): raise Unsupported("inline asm in %s" % F.name)
                    else: callee = None; fpv = "v_" + cid(q.local())
                q.need("("); args = []; atys = []
                if not q.peek(")"):
                    while True:
                        at = q.type(); q.byval = None; q.attrs(); a = q.value(at)
                        if a == "LL_UNDEF_AGG": raise Unsupported("undef aggregate argument in %s" % F.name)
                        args.append(a); atys.append(at.c())
                        if not q.eat(","): break
                q.need(")")
                if fty is not None and fty.vararg and callee is not None:
                    raise Unsupported("variadic call to %s in %s" % (callee, F.name))
                tail = q.rest()
                emit_goto = None
                if op == "invoke":
                    mm2 = re.search(r'to label %' + NAME + r' unwind label', tail)
                    emit_goto = mm2.group(1)
                if callee is None:
                    ce = "((%s(*)(%s))%s)(%s)" % (t.c(), ", ".join(atys) or "void", fpv, ", ".join(args))
                elif any(callee.startswith(d) for d in DROP_CALLS):
                    ce = None
                elif callee in NORETURN:
                    F.throws = True
                    code.append("  LL_THROW(\"%s\");" % callee); ce = None; prev_noreturn = True
                    emit_goto = None
                elif callee.startswith("llvm_2e"):
                    ce = intrinsic(callee, args, t, F)
                else:
                    F.callees.add(callee); ce = "%s(%s)" % (callee, ", ".join(args))
                if ce is not None:
                    if isinstance(t, TVoid) or dst is None: code.append("  %s;" % ce)
                    else: define(t, ce)
                elif dst is not None and not isinstance(t, TVoid):
                    decls[dst] = "%s %s" % (t.c(), dst)
                if emit_goto: code.append("  %sgoto %s;" % (phi_moves(bn, emit_goto), lab(emit_goto)))
            elif op == "extractvalue":
                t = q.type(); v = q.value(t); cur = t; e = v
                while q.eat(","):
                    k = int(q.m(r'\d+').group(0)); cur = G.resolve(cur)
                    if isinstance(cur, TStruct): e += ".f%d" % k; cur = cur.fields[k]
                    else: e += ".a[%d]" % k; cur = cur.el
                define(cur, e)
            elif op == "insertvalue":
                t = q.type(); v = q.value(t); q.need(","); t2 = q.type(); v2 = q.value(t2); e = dst; cur = t
                while q.eat(","):
                    k = int(q.m(r'\d+').group(0)); cur = G.resolve(cur)
                    if isinstance(cur, TStruct): e += ".f%d" % k; cur = cur.fields[k]
                    else: e += ".a[%d]" % k; cur = cur.el
                decls[dst] = "%s %s" % (t.c(), dst)
                if v != "LL_UNDEF_AGG": code.append("  %s = %s;" % (dst, v))
                code.append("  %s = %s;" % (e, v2))
            elif op in ("landingpad", "resume", "cleanup", "catch", "filter"):
                raise Unsupported("EH instruction %s in a normally reachable block of %s" % (op, F.name))
            elif op == "fence": pass
            else:
                raise Unsupported("instruction `%s` in %s" % (op, F.name))
    out = [F.sig() + " {"]
    for d in decls.values(): out.append("  %s;" % d)
    out.extend(code); out.append("}")
    return "\n".join(out)

def intrinsic(callee, args, t, F):
    if callee.startswith("llvm_2ememcpy") or callee.startswith("llvm_2ememmove"):
        return "LL_memcpy(%s, %s, %s)" % tuple(args[:3])
    if callee.startswith("llvm_2ememset"): return "LL_memset(%s, %s, %s)" % tuple(args[:3])
    mm = re.match(r'llvm_2e(u|s)(mul|add|sub)_2ewith_2eoverflow_2ei(\d+)$', callee)
    if mm:
        G.intrinsics.add(callee); return "%s(%s)" % (callee, ", ".join(args))
    # __builtin_constant_p: "is not a constant" is always a legal answer (what -O0 code generation gives)
    if callee.startswith("llvm_2eis_2econstant_2e"): return "0"
    if callee == "llvm_2etrap": return '__CPROVER_assert(0, "llvm.trap reached"); __CPROVER_assume(0)'
    mm = re.match(r'llvm_2e(ctlz|cttz|ctpop|bswap|abs|smax|smin|umax|umin)_2ei(\d+)$', callee)
    if mm:
        G.intrinsics.add(callee); return "%s(%s)" % (callee, ", ".join(args))
    if callee in ("llvm_2estacksave", "llvm_2estackrestore"): return None if "restore" in callee else "((void*)0)"
    mm = re.match(r'llvm_2e(fabs|sqrt|rint|floor|ceil|trunc|nearbyint)_2e(f32|f64|f80)$', callee)
    if mm:
        fn = mm.group(1) + {"f32": "f", "f64": "", "f80": "l"}[mm.group(2)]
        return "__builtin_%s(%s)" % (fn, args[0])
    raise Unsupported("intrinsic %s in %s" % (callee, F.name))

def intrinsic_defs(out):
    for n in sorted(G.intrinsics):
        mm = re.match(r'llvm_2e(u|s)(mul|add|sub)_2ewith_2eoverflow_2ei(\d+)$', n)
        if mm:
            sg, o, w = mm.group(1), mm.group(2), int(mm.group(3))
            k = TStruct([TInt(w), TInt(1)], False).c()
            ut = TInt(w).c(); st = TInt(w).sc(); oc = {"mul": "*", "add": "+", "sub": "-"}[o]
            if w > 64: raise Unsupported(n)
            if sg == "u":
                out.append("static %s %s(%s a, %s b) { %s r; unsigned __int128 w = (unsigned __int128)a %s (unsigned __int128)b; r.f0 = (%s)w; r.f1 = (w >> %d) != 0; return r; }"
                           % (k, n, ut, ut, k, oc, ut, w))
            else:
                out.append("static %s %s(%s a, %s b) { %s r; __int128 w = (__int128)(%s)a %s (__int128)(%s)b; r.f0 = (%s)w; r.f1 = (w != (__int128)(%s)(%s)w); return r; }"
                           % (k, n, ut, ut, k, st, oc, st, ut, st, ut))
            continue
        mm = re.match(r'llvm_2e(ctlz|cttz|ctpop|bswap|abs|smax|smin|umax|umin)_2ei(\d+)$', n)
        f, w = mm.group(1), int(mm.group(2)); ut = TInt(w).c(); st = TInt(w).sc()
        if f == "ctlz":
            out.append("static %s %s(%s a, _Bool z) { %s n = 0; for (int i = %d; i >= 0; --i) { if ((a >> i) & 1) break; ++n; } return n; }" % (ut, n, ut, ut, w - 1))
        elif f == "cttz":
            out.append("static %s %s(%s a, _Bool z) { %s n = 0; for (int i = 0; i < %d; ++i) { if ((a >> i) & 1) break; ++n; } return n; }" % (ut, n, ut, ut, w))
        elif f == "ctpop":
            out.append("static %s %s(%s a) { %s n = 0; for (int i = 0; i < %d; ++i) n += (a >> i) & 1; return n; }" % (ut, n, ut, ut, w))
        elif f in ("smax", "smin", "umax", "umin"):
            cast = st if f[0] == "s" else ut; o = ">" if f.endswith("max") else "<"
            out.append("static %s %s(%s a, %s b) { return ((%s)a %s (%s)b) ? a : b; }" % (ut, n, ut, ut, cast, o, cast))
        elif f == "abs":
            out.append("static %s %s(%s a, _Bool p) { return ((%s)a < 0) ? (%s)(-(%s)a) : a; }" % (ut, n, ut, st, ut, st))
        else: raise Unsupported(n)

def strip_meta(ln):
    ln = re.sub(r'(,\s*![\w.]+ ![\w.]+)+\s*$', '', ln)
    ln = re.sub(r',?\s*!srcloc !\d+', '', ln)
    ln = re.sub(r'\s+#\d+\s*$', '', ln)
    ln = re.sub(r'\)\s+#\d+\s+(to label)', r') \1', ln)
    ln = re.sub(r', align \d+\s*$', '', ln)
    return ln

def parse_module(path):
    lines = open(path).read().split("\n")
    funcs = {}; order = []; gl = []; decls = {}; ctors = []
    i = 0
    while i < len(lines):
        ln = lines[i]
        mm = re.match(r'^%' + NAME + r' = type (.*)$', ln)
        if mm:
            t = P(mm.group(2)).type()
            if not isinstance(t, TStruct): raise Unsupported("named non-struct type")
            G.types[mm.group(1)] = t
        elif ln.startswith("@"):
            gl.append(ln)
        elif ln.startswith("define"):
            body = []; i += 1
            while lines[i] != "}":
                l2 = lines[i]
                if re.match(r'^\s+switch ', l2):
                    while not lines[i].strip().endswith("]"): i += 1; l2 += " " + lines[i].strip()
                if re.match(r'^\s+(%\S+ = )?invoke ', l2):
                    i += 1; l2 += " " + lines[i].strip()
                if re.match(r'^\s+(%\S+ = )?landingpad ', l2):
                    while lines[i + 1].strip().startswith(("catch", "cleanup", "filter")): i += 1
                body.append(l2); i += 1
            hdr = ln.rsplit("{", 1)[0]
            mmn = re.search(r'@' + NAME + r'\(', hdr)
            funcs[cid(mmn.group(1))] = (hdr, body); order.append(cid(mmn.group(1)))
        elif ln.startswith("declare"):
            mmn = re.search(r'@' + NAME + r'\(', ln)
            decls[cid(mmn.group(1))] = ln
        i += 1
    return funcs, order, gl, decls

def main():
    ap = argparse.ArgumentParser()
    ap.add_argument("ll"); ap.add_argument("--roots", required=True); ap.add_argument("--cut", default="")
    ap.add_argument("-o", default="-"); ap.add_argument("--meta", default=None)
    ap.add_argument("--header", default=None, help="write types/prototypes/globals here and only bodies to -o")
    a = ap.parse_args()
    G.intrinsics = set()
    funcs, order, gl, decls = parse_module(a.ll)
    cut = set(x for x in a.cut.split(",") if x)
    # ---- globals table
    globs = {}
    for ln in gl:
        mm = re.match(r'^@' + NAME + r' = (.*)$', ln); name = cid(mm.group(1))
        globs[name] = mm.group(2)
    # ---- roots
    roots = []; groots = []
    for r in a.roots.split(","):
        if not r: continue
        if r == "@all": roots.extend(order)
        elif r.startswith("re:"):
            rr = re.compile(r[3:]); hit = [f for f in order if rr.search(f)]
            ghit = [g for g in globs if rr.search(g)]
            if not hit and not ghit: raise Unsupported("root pattern %s matches no defined function or global" % r)
            roots.extend(hit); groots.extend(ghit)
        elif r in globs: groots.append(r)
        else:
            if r not in funcs: raise Unsupported("root %s is not defined in %s" % (r, a.ll))
            roots.append(r)
    # ---- reachability over functions and globals (by @-reference scan)
    seen_f = []; seen_g = []; sf = set(); sg = set(); work = list(roots)
    def scan(text):
        for m2 in RX_GLOBAL.finditer(text):
            n = cid(m2.group(1))
            if n in funcs and n not in sf: work.append(n)
            elif n in globs and n not in sg:
                sg.add(n); seen_g.append(n); scan(globs[n])
    for g in groots:
        if g not in sg: sg.add(g); seen_g.append(g); scan(globs[g])
    while work:
        f = work.pop()
        if f in sf: continue
        sf.add(f); seen_f.append(f)
        if f in cut: continue
        hdr, body = funcs[f]
        # ignore references that occur only in landing pads?  (kept: harmless over-approximation)
        scan("\n".join(body))
    # ---- dynamic initialisers (@llvm.global_ctors): an initialiser function is included (and called by
    #      LL_global_ctors(), which every harness runs first) iff it initialises a global that the emitted
    #      code references; iostream / library-wide Init objects are thereby left out.
    ctor_calls = []
    inits = []
    for f in order:
        if f.startswith("_GLOBAL__sub_I_"):
            for m2 in re.finditer(r'call void @' + NAME + r'\(\)', "\n".join(funcs[f][1])):
                inits.append(cid(m2.group(1)))
    changed = True
    while changed:
        changed = False
        for f in inits:
            if f in ctor_calls or f not in funcs: continue
            tg = [cid(m2.group(1)) for m2 in RX_GLOBAL.finditer("\n".join(funcs[f][1]))]
            tg = [g for g in tg if g in globs and g != "__dso_handle"]
            if any(g in sg for g in tg):
                ctor_calls.append(f); changed = True
                work.append(f)
                while work:
                    f2 = work.pop()
                    if f2 in sf: continue
                    sf.add(f2); seen_f.append(f2)
                    if f2 in cut: continue
                    scan("\n".join(funcs[f2][1]))
    ctor_calls = [f for f in inits if f in ctor_calls]
    emit_f = [f for f in order if f in sf and f not in cut]
    # ---- translate
    Fs = {}
    bodies = []
    for f in emit_f:
        F = Func(*funcs[f]); Fs[f] = F
        bodies.append(translate_function(F, funcs, cut))
    # functions referenced through G.refs (address taken / globals)
    out = ["/* generated by ll2c.py from %s -- do not edit */" % a.ll,
           "#include <stdint.h>", "#include <stddef.h>",
           "void *memcpy(void*, const void*, size_t); void *memset(void*, int, size_t); void *memmove(void*, const void*, size_t);",
           "/* LLVM undef = an arbitrary value (D5): an uninitialised local is nondeterministic in CBMC */",
           "static inline uint8_t LL_undef_u8(void) { uint8_t x; return x; } static inline uint16_t LL_undef_u16(void) { uint16_t x; return x; } static inline uint32_t LL_undef_u32(void) { uint32_t x; return x; }",
           "static inline uint64_t LL_undef_u64(void) { uint64_t x; return x; } static inline _Bool LL_undef_u1(void) { uint8_t x; return (x & 1) != 0; } static inline void* LL_undef_ptr(void) { void *x; return x; } static inline double LL_undef_f(void) { double x; return x; }",
           "static inline double LL_f64_bits(uint64_t b) { double d; memcpy(&d, &b, 8); return d; }",
           "#define LL_memcpy(d,s,n) memmove((d),(s),(n))", "#define LL_memset(d,v,n) memset((d),(int)(v),(n))",
           "#ifndef LL_THROW", "extern _Bool LL_nothrow;",
           "#define LL_THROW(what) do { __CPROVER_assert(!LL_nothrow, \"exceptional exit (\" what \") where the contract promises normal return\"); __CPROVER_assume(0); } while (0)",
           "#endif"]
    TYPES_AT = len(out)
    gdecl = []
    # prototypes first (globals' initialisers may take function addresses)
    protos = []
    needed_decl = set()
    for f in emit_f: protos.append(Fs[f].sig(False) + ";")
    called = set()
    for f in emit_f: called |= Fs[f].callees
    for n in sorted((called | G.refs | sf) - set(emit_f)):
        if n in funcs:   # defined but cut
            protos.append(Func(*funcs[n]).sig(False) + ";  /* cut */")
        elif n in decls:
            p = P(decls[n]); p.need("declare"); p.m(LINKAGE); p.attrs(); rt = p.type(); p.m(RX_GLOBAL); p.need("(")
            args = []; va = False
            if not p.peek(")"):
                while True:
                    if p.eat("..."): va = True; break
                    at = p.type(); p.attrs(); args.append(at.c())
                    if not p.eat(","): break
            if n.startswith("llvm_2e"): continue
            if n in ("memcpy", "memset", "memmove"): continue
            protos.append("%s %s(%s%s);  /* external */" % (rt.c(), n, ", ".join(args) or ("void" if not va else ""), ", ..." if va else ""))
    for n in seen_g + [g for g in sorted(G.refs) if g in globs and g not in sg]:
        if n in sg or True:
            txt = globs[n]
            if n.startswith("llvm_2e"): continue
            q = P(txt); lk = q.m(LINKAGE).group(0)
            ext = bool(re.search(r'\bexternal\b|\bextern_weak\b', lk))
            if not (q.eatw("global") or q.eatw("constant")):
                if q.eatw("alias"): raise Unsupported("alias global %s" % n)
                raise Unsupported("global " + txt[:60])
            t = q.type()
            init = ""
            if not ext:
                v = q.value(t)
                init = " = " + v
            is_const = bool(re.match(r'\s*constant\b', txt[len(lk):]))
            gdecl.append(("extern " if ext else "") + ("const " if is_const and not ext else "") + "%s %s%s;" % (t.c(), n, init))
        sg.add(n)
    idefs = []; intrinsic_defs(idefs)
    tl = []; emit_types(tl)
    bodies.append("void LL_global_ctors(void) {\n" + "".join("  %s();\n" % f for f in ctor_calls) + "}")
    protos.append("void LL_global_ctors(void);")
    head = "\n".join(out[:TYPES_AT] + tl + ["#ifndef LL2C_TYPES_ONLY"] + protos + gdecl + idefs + out[TYPES_AT:] + ["#endif /* LL2C_TYPES_ONLY */"]) + "\n"
    text = "\n".join(bodies) + "\n"
    if a.header:
        guard = "LL2C_" + cid(a.header).upper()
        open(a.header, "w").write("#ifndef %s\n#define %s\n%s#endif\n" % (guard, guard, head))
    else: text = head + text
    if a.o == "-": sys.stdout.write(text)
    else: open(a.o, "w").write(text)
    if a.meta:
        names = emit_f + sorted(n for n in (called | sf) if n not in emit_f)
        dem = {}
        try:
            r = subprocess.run(["c++filt"], input="\n".join(names), capture_output=True, text=True)
            dem = dict(zip(names, r.stdout.split("\n")))
        except Exception: pass
        meta = {"source": a.ll, "roots": roots, "cut": sorted(cut),
                "functions": [{"name": f, "demangled": dem.get(f, f), "ret": Fs[f].ret.c(),
                               "params": [[t.c(), n] for t, n, _ in Fs[f].params],
                               "callees": sorted(Fs[f].callees), "throws": Fs[f].throws,
                               "ir_instructions": sum(1 for l in Fs[f].body if l.strip() and not l.strip().endswith(":"))}
                              for f in emit_f],
                "external": sorted(n for n in (called - set(emit_f)) if not n.startswith("llvm_2e")),
                "external_demangled": {n: dem.get(n, n) for n in (called - set(emit_f))}}
        json.dump(meta, open(a.meta, "w"), indent=1)

if __name__ == "__main__":
    try: main()
    except Unsupported as e:
        print("ll2c: UNSUPPORTED: %s" % e, file=sys.stderr); sys.exit(2)
