#!/usr/bin/env python3
"""seeded_selftest.py [ids...]   (maintenance tool, not a registered check)

Regression test of the checks themselves: for every seeded change under
/verif/seeded/<id>/ whose meta.json carries a "selftest" entry
    {"prop": "C19", "only": "watchdog/new_watchdog_event", "expect": "violation"}
the sources of /repo (no build output, no .git) are copied to a scratch
directory outside /repo and /verif, patch.diff is applied there, and the
named part of the check is run against the copy (VERIF_REPO) with all of its
output redirected (VERIF_OUT), so that neither /repo nor /verif/evidence is
touched.  Expected: exit 1 with a VIOLATION line.  A seeded change that the
check is documented NOT to reach has "expect": "pass" (the check must stay
silent: the changed code is outside the functions under contract).
The scratch directory is removed at the end.
"""
import os, sys, json, subprocess, shutil, tempfile, time
VERIF = os.path.dirname(os.path.dirname(os.path.abspath(__file__)))
def main():
    want = sys.argv[1:]
    scratch = tempfile.mkdtemp(prefix="verif_selftest_")
    rc_all = 0
    try:
        for d in sorted(os.listdir(os.path.join(VERIF, "seeded"))):
            mp = os.path.join(VERIF, "seeded", d, "meta.json")
            if not os.path.isfile(mp) or (want and d not in want): continue
            st = json.load(open(mp)).get("selftest")
            if not st: continue
            repo = os.path.join(scratch, "repo"); out = os.path.join(scratch, "out")
            shutil.rmtree(repo, ignore_errors=True); shutil.rmtree(out, ignore_errors=True)
            subprocess.check_call(["rsync", "-a", "--exclude", ".git", "--exclude", "*.o", "--exclude", "*.lo", "--exclude", ".libs",
                                   "--exclude", "*.la", "--exclude", "/tests", "--exclude", "/demos", "--exclude", "/doc", "--exclude", "/interfaces/*/*",
                                   "/repo/", repo + "/"])
            os.symlink("/repo/src/.libs", os.path.join(repo, "src", ".libs"))   # replays link the unmutated libppl; the code under test comes from the unit
            subprocess.check_call(["patch", "-s", "-p1", "-d", repo, "-i", os.path.join(VERIF, "seeded", d, "patch.diff")])
            env = dict(os.environ, VERIF_REPO=repo, VERIF_OUT=out)
            t0 = time.time()
            cmd = [os.path.join(VERIF, "check"), st["prop"], "--tier", st.get("tier", "quick")] + (["--only", st["only"]] if st.get("only") else [])
            r = subprocess.run(cmd, env=env, stdout=subprocess.PIPE, stderr=subprocess.DEVNULL, text=True)
            viol = [l for l in r.stdout.split("\n") if l.startswith("VIOLATION")]
            ok = (r.returncode == 1 and viol) if st.get("expect", "violation") == "violation" else (r.returncode == 0 and not viol)
            print("%-6s %-4s expect=%-9s exit=%d violations=%d  %4.0fs  %s" % (d, st["prop"], st.get("expect", "violation"), r.returncode, len(viol), time.time() - t0, "ok" if ok else "SELFTEST-FAILED"))
            for l in viol[:3]: print("        " + l.replace(out, "<out>")[:200])
            sys.stdout.flush()
            if not ok: rc_all = 1
    finally:
        shutil.rmtree(scratch, ignore_errors=True)
    return rc_all
if __name__ == "__main__": sys.exit(main())
