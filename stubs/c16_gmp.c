/* stubs/c16_gmp.c -- assumed contracts (trusted base, A5) of what CO_Tree.cc needs from outside.
   GMP value moves: an mpz value is modelled by its representation words, which copy / swap carry unchanged;
   clear ends its lifetime.
   Allocation never fails.  The one index array and the one data array that an operation may allocate
   (rebuild_bigger_tree / init) come from TYPED pools of exactly the size the operation asks for, so that
   CBMC reasons about them as arrays of uint64_t / mpz structs and not byte by byte; any other request
   falls back to malloc().  delete of a pool or harness array is a no-op (use-after-free of the OLD arrays
   is therefore not detected here; reads of them would still be caught by the whole-map postconditions). */
void *malloc(unsigned long); void free(void *);
void __gmpz_init_set(struct struct_2e__mpz_struct *dst, struct struct_2e__mpz_struct *src) { *dst = *src; }
void __gmpz_set(struct struct_2e__mpz_struct *dst, struct struct_2e__mpz_struct *src) { *dst = *src; }
void __gmpz_swap(struct struct_2e__mpz_struct *a, struct struct_2e__mpz_struct *b) { struct struct_2e__mpz_struct t = *a; *a = *b; *b = t; }
void __gmpz_clear(struct struct_2e__mpz_struct *a) { }
uint8_t *_Znam(uint64_t n) {
  if (!POOL_IDX_used && n == sizeof(POOL_IDX)) { POOL_IDX_used = 1; return (uint8_t *)POOL_IDX; }
  { uint8_t *p = (uint8_t *)malloc(n); __CPROVER_assume(p != 0); return p; }
}
uint8_t *_Znwm(uint64_t n) {
  if (!POOL_DAT_used && n == sizeof(POOL_DAT)) { POOL_DAT_used = 1; return (uint8_t *)POOL_DAT; }
  { uint8_t *p = (uint8_t *)malloc(n); __CPROVER_assume(p != 0); return p; }
}
static int is_static_array(uint8_t *p) { return p == (uint8_t *)POOL_IDX || p == (uint8_t *)POOL_DAT || p == (uint8_t *)G_idx || p == (uint8_t *)G_dat; }
void _ZdaPv(uint8_t *p) { if (p != 0 && !is_static_array(p)) free(p); }
void _ZdlPv(uint8_t *p) { if (p != 0 && !is_static_array(p)) free(p); }
/* Coefficient_zero() returns *Coefficient_zero_p, a library-wide constant set up by the library initialiser */
MPZ_T G_zero_coefficient;
struct class_2e__gmp_expr* _ZN23Parma_Polyhedra_Library18Coefficient_zero_pE = &G_zero_coefficient;
