/* ghost state of the C12 contracts (contracts/C12/interval.h): chosen by the harness, read by the clauses */
ex_t G_an, G_bn; int G_as, G_bs;
ITV_T G_to0;
ITV_T G_x0, G_y0;   /* entry copies of the operands for the aliased-argument variants (check C13) */
