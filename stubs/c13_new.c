/* stubs/c13_new.c -- allocation for the Determinate unit (trusted base, A5): operator new hands out the typed
   representation object G_rep[2] (at most one allocation per operation) and never fails; operator delete
   records which representation was released. */
uint8_t *_Znwm(uint64_t n) { G_new_calls++; __CPROVER_assert(G_new_calls == 1 && n == sizeof(REP_T), "at most one representation is allocated"); return (uint8_t *)&G_rep[2]; }
void _ZdlPv(uint8_t *p) { int i = idx_of((REP_T *)p); __CPROVER_assert(i >= 0, "operator delete of a representation object"); if (i >= 0) G_deleted[i]++; }
