/* stubs/c03_box.c -- harness objects and assumed contracts for the Box unit (trusted base, A5).
   Allocation never fails (operator new = malloc).  The throw_* helpers (cut) are body-less and must be
   unreachable: the operands always have the same space dimension. */
ITV_T G_xs[BOX_N], G_ys[BOX_N]; BOX_T G_bx, G_by;
ex_t G_pn[BOX_N]; int G_ps[BOX_N];
ITV_T G_xs0[BOX_N]; uint32_t G_fx0;
int G_satX0, G_satY0, G_emptyX0, G_emptyY0; ex_t G_qn[BOX_N]; int G_qs[BOX_N]; int32_t G_t; int G_satQ0;
void *malloc(unsigned long); void free(void *);
uint8_t *_Znwm(uint64_t n) { uint8_t *p = (uint8_t *)malloc(n); __CPROVER_assume(p != 0); return p; }
void _ZdlPv(uint8_t *p) { free(p); }
/* C08 box task: token counter and the outcome of the plain widening on the same operands */
uint32_t G_tokens, G_tokens0; int G_plain_changed; uint32_t G_fy0;
/* C13 box tasks: raw storage for a copy, entry copy of y */
BOX_T G_bz; ITV_T G_ys0[BOX_N]; uint32_t G_fy0v;
/* C14 box tasks: entry copies of both operands */
BOX_T G_bx_entry, G_by_entry; ITV_T G_xs_entry[BOX_N], G_ys_entry[BOX_N];
