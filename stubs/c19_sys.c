/* stubs/c19_sys.c -- assumed contracts of the system interface used by src/Watchdog.cc (trusted base, A5).
   The interval timer is a ghost one-shot timer: getitimer() reports the remaining time chosen by the
   harness (constrained by the contract's precondition to be consistent with the last value armed),
   setitimer() records what the library arms.  Both always succeed.  operator new never fails. */
void *malloc(unsigned long); void free(void *);
uint32_t getitimer(uint32_t which, struct struct_2eitimerval *v) {
  v->f0.f0 = 0; v->f0.f1 = 0; v->f1.f0 = G_rem_s; v->f1.f1 = G_rem_us; return 0;
}
uint32_t setitimer(uint32_t which, struct struct_2eitimerval *nv, struct struct_2eitimerval *ov) {
  G_set_calls++; G_set_s = nv->f1.f0; G_set_us = nv->f1.f1; return 0;
}
uint8_t *_Znwm(uint64_t n) { uint8_t *p = (uint8_t *)malloc(n); __CPROVER_assume(p != 0); return p; }
void _ZdlPv(uint8_t *p) { free(p); }
void _ZN12_GLOBAL__N_119throw_syscall_errorEPKc(uint8_t *name) { LL_THROW("throw_syscall_error"); }
