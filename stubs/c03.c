/* stubs/c03.c -- assumed contracts for the BD_Shape unit (trusted base, A5).
   Exceptions: the throw_* helpers only build a message and throw.  The redundancy bit matrix is only
   meaningful when the REDUCED status flag is set, which the contracts' preconditions exclude; its copy /
   comparison / clearing are modelled as having no effect on anything the contracts observe.
   Allocation never fails. */
void *malloc(unsigned long); void free(void *);
uint8_t *_Znwm(uint64_t n) { uint8_t *p = (uint8_t *)malloc(n); __CPROVER_assume(p != 0); return p; }
void _ZdlPv(uint8_t *p) { free(p); }
