/* ghost state of the C17 contracts (contracts/C17/interval_int.h) */
int64_t G_z;
