/* stubs/common.c -- assumed contracts of functions cut out of every unit (trusted base).
   ppl_unreachable(): PPL_UNREACHABLE marks code the authors claim dead; reaching it is reported. */
void _ZN23Parma_Polyhedra_Library15ppl_unreachableEv(void) {
  __CPROVER_assert(0, "PPL_UNREACHABLE reached");
  __CPROVER_assume(0);
}
