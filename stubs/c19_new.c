/* operator new never fails (assumption A5) */
void *malloc(unsigned long);
uint8_t *_Znwm(uint64_t n) { uint8_t *p = (uint8_t *)malloc(n); __CPROVER_assume(p != 0); return p; }
