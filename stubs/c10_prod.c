/* stubs/c10_prod.c -- harness objects and assumed contracts for the product unit (trusted base, A5).
   Allocation never fails (operator new = malloc, operator delete = free).  check_space_dimension_overflow()
   returns its first argument when it does not exceed the maximum and throws otherwise (globals.cc). */
PROD_T G_px, G_py; ITV_T *G_x1s, *G_x2s, *G_y1s, *G_y2s;
int G_psatX0, G_psatY0, G_sat_x1_0, G_sat_x2_0, G_sat_y1_0, G_sat_y2_0;
ITV_T G_xs[BOX_N], G_ys[BOX_N]; BOX_T G_bx, G_by; ex_t G_pn[BOX_N]; int G_ps[BOX_N]; ITV_T G_xs0[BOX_N]; uint32_t G_fx0;
int G_satX0, G_satY0, G_emptyX0, G_emptyY0; ex_t G_qn[BOX_N]; int G_qs[BOX_N]; int32_t G_t; int G_satQ0;
void *malloc(unsigned long); void free(void *);
uint8_t *_Znwm(uint64_t n) { uint8_t *p = (uint8_t *)malloc(n); __CPROVER_assume(p != 0); return p; }
void _ZdlPv(uint8_t *p) { free(p); }
uint64_t _ZN23Parma_Polyhedra_Library30check_space_dimension_overflowEmmPKcS1_S1_(uint64_t dim, uint64_t max, uint8_t *a, uint8_t *b, uint8_t *c) {
  if (dim > max) LL_THROW("check_space_dimension_overflow");
  return dim;
}

/* memmove for the small objects this unit copies (intervals, vectors of at most two intervals, status words):
   an explicit byte-wise copy through a temporary, replacing CBMC's array-primitive model, which did not
   propagate copies into heap objects under --dfcc in this set-up (observed: std::vector::operator= left the
   destination elements unchanged).  Larger copies are reported. */
void *memmove(void *d, const void *s, unsigned long n) {
  unsigned char t[32];
  __CPROVER_assert(n <= 32, "memmove stub: at most 32 bytes");
  if (n > 0) t[0] = ((const unsigned char *)s)[0];
  if (n > 1) t[1] = ((const unsigned char *)s)[1];
  if (n > 2) t[2] = ((const unsigned char *)s)[2];
  if (n > 3) t[3] = ((const unsigned char *)s)[3];
  if (n > 4) t[4] = ((const unsigned char *)s)[4];
  if (n > 5) t[5] = ((const unsigned char *)s)[5];
  if (n > 6) t[6] = ((const unsigned char *)s)[6];
  if (n > 7) t[7] = ((const unsigned char *)s)[7];
  if (n > 8) t[8] = ((const unsigned char *)s)[8];
  if (n > 9) t[9] = ((const unsigned char *)s)[9];
  if (n > 10) t[10] = ((const unsigned char *)s)[10];
  if (n > 11) t[11] = ((const unsigned char *)s)[11];
  if (n > 12) t[12] = ((const unsigned char *)s)[12];
  if (n > 13) t[13] = ((const unsigned char *)s)[13];
  if (n > 14) t[14] = ((const unsigned char *)s)[14];
  if (n > 15) t[15] = ((const unsigned char *)s)[15];
  if (n > 16) t[16] = ((const unsigned char *)s)[16];
  if (n > 17) t[17] = ((const unsigned char *)s)[17];
  if (n > 18) t[18] = ((const unsigned char *)s)[18];
  if (n > 19) t[19] = ((const unsigned char *)s)[19];
  if (n > 20) t[20] = ((const unsigned char *)s)[20];
  if (n > 21) t[21] = ((const unsigned char *)s)[21];
  if (n > 22) t[22] = ((const unsigned char *)s)[22];
  if (n > 23) t[23] = ((const unsigned char *)s)[23];
  if (n > 24) t[24] = ((const unsigned char *)s)[24];
  if (n > 25) t[25] = ((const unsigned char *)s)[25];
  if (n > 26) t[26] = ((const unsigned char *)s)[26];
  if (n > 27) t[27] = ((const unsigned char *)s)[27];
  if (n > 28) t[28] = ((const unsigned char *)s)[28];
  if (n > 29) t[29] = ((const unsigned char *)s)[29];
  if (n > 30) t[30] = ((const unsigned char *)s)[30];
  if (n > 31) t[31] = ((const unsigned char *)s)[31];
  if (n > 0) ((unsigned char *)d)[0] = t[0];
  if (n > 1) ((unsigned char *)d)[1] = t[1];
  if (n > 2) ((unsigned char *)d)[2] = t[2];
  if (n > 3) ((unsigned char *)d)[3] = t[3];
  if (n > 4) ((unsigned char *)d)[4] = t[4];
  if (n > 5) ((unsigned char *)d)[5] = t[5];
  if (n > 6) ((unsigned char *)d)[6] = t[6];
  if (n > 7) ((unsigned char *)d)[7] = t[7];
  if (n > 8) ((unsigned char *)d)[8] = t[8];
  if (n > 9) ((unsigned char *)d)[9] = t[9];
  if (n > 10) ((unsigned char *)d)[10] = t[10];
  if (n > 11) ((unsigned char *)d)[11] = t[11];
  if (n > 12) ((unsigned char *)d)[12] = t[12];
  if (n > 13) ((unsigned char *)d)[13] = t[13];
  if (n > 14) ((unsigned char *)d)[14] = t[14];
  if (n > 15) ((unsigned char *)d)[15] = t[15];
  if (n > 16) ((unsigned char *)d)[16] = t[16];
  if (n > 17) ((unsigned char *)d)[17] = t[17];
  if (n > 18) ((unsigned char *)d)[18] = t[18];
  if (n > 19) ((unsigned char *)d)[19] = t[19];
  if (n > 20) ((unsigned char *)d)[20] = t[20];
  if (n > 21) ((unsigned char *)d)[21] = t[21];
  if (n > 22) ((unsigned char *)d)[22] = t[22];
  if (n > 23) ((unsigned char *)d)[23] = t[23];
  if (n > 24) ((unsigned char *)d)[24] = t[24];
  if (n > 25) ((unsigned char *)d)[25] = t[25];
  if (n > 26) ((unsigned char *)d)[26] = t[26];
  if (n > 27) ((unsigned char *)d)[27] = t[27];
  if (n > 28) ((unsigned char *)d)[28] = t[28];
  if (n > 29) ((unsigned char *)d)[29] = t[29];
  if (n > 30) ((unsigned char *)d)[30] = t[30];
  if (n > 31) ((unsigned char *)d)[31] = t[31];
  return d;
}
