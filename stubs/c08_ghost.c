/* harness-owned stop-point array of the C08 contracts (contracts/C08/interval_widen.h) */
T_u G_stop[ST_N]; uint32_t G_nstop;
