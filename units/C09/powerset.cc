/* C09 unit: Pointset_Powerset<Box<ITV>> over the box instantiations of units/C03/box.cc -- the generic Powerset /
   Pointset_Powerset templates, the Determinate copy-on-write handle and the Box disjuncts are all the real code.
   Only operations that do not go through Constraint / Linear_Expression / NNC_Polyhedron (GMP).
   Single-call wrappers; compiled with -fno-access-control. */
#include "../C03/box.cc"
typedef Pointset_Powerset<BOX> PS;
extern "C" {
bool w_s_OK(const PS& x) { return x.OK(); }
void w_s_omega_reduce(const PS& x) { x.omega_reduce(); }
void w_s_collapse(PS& x) { x.collapse(); }
void w_s_add_disjunct(PS& x, const BOX& d) { x.add_disjunct(d); }
bool w_s_is_empty(const PS& x) { return x.is_empty(); }
bool w_s_is_bounded(const PS& x) { return x.is_bounded(); }
bool w_s_contains(const PS& x, const PS& y) { return x.contains(y); }
bool w_s_is_disjoint_from(const PS& x, const PS& y) { return x.is_disjoint_from(y); }
bool w_s_definitely_entails(const PS& x, const PS& y) { return x.definitely_entails(y); }
void w_s_intersection(PS& x, const PS& y) { x.intersection_assign(y); }
void w_s_upper_bound(PS& x, const PS& y) { x.upper_bound_assign(y); }
void w_s_pairwise_reduce(PS& x) { x.pairwise_reduce(); }
void w_s_topological_closure(PS& x) { x.topological_closure_assign(); }
void w_s_assign(PS& x, const PS& y) { x = y; }
}
