/* C12 unit: instantiates Interval<VB, INFO> for one boundary type VB and one
   interval-info policy (selected with -DVPOL=1|2), as Box<Interval<...>> and
   the tests do.  Each extern "C" wrapper is a single call; its callee is the
   function placed under contract. */
#include "ppl_header.hh"
#include "interfaced_boxes.hh"
using namespace Parma_Polyhedra_Library;
#ifndef VB
# error "define VB (boundary type) and VPOL"
#endif
#if VPOL == 1
/* the policy of the shipped Int8_Box ... Int64_Box, Uint8_Box ... */
typedef Native_Integer_Box_Interval_Info INFO;
#elif VPOL == 2
/* the policy of Rational_Box (special bits + open bits), here with integer end points:
   exercises the open/closed code paths */
typedef Rational_Interval_Info INFO;
#else
# error "unknown VPOL"
#endif
typedef VB B;
typedef Interval<B, INFO> ITV;
typedef Checked::Extended_Int<Check_Overflow_Policy<B>, B> EI;

extern "C" {
/* layout and switches of the info word, read from the code */
extern const int LOWER_SPECIAL_BIT, LOWER_OPEN_BIT, UPPER_SPECIAL_BIT, UPPER_OPEN_BIT;
extern const bool STORE_SPECIAL, STORE_OPEN, MAY_BE_EMPTY, MAY_CONTAIN_INFINITY;
const int LOWER_SPECIAL_BIT = INFO::lower_special_bit;
const int LOWER_OPEN_BIT = INFO::lower_open_bit;
const int UPPER_SPECIAL_BIT = INFO::upper_special_bit;
const int UPPER_OPEN_BIT = INFO::upper_open_bit;
const bool STORE_SPECIAL = INFO::store_special;
const bool STORE_OPEN = INFO::store_open;
const bool MAY_BE_EMPTY = INFO::may_be_empty;
const bool MAY_CONTAIN_INFINITY = INFO::may_contain_infinity;
/* number layer used for the boundaries (To policy of assign_r & co. on native types) */
extern const B ENC_PINF, ENC_MINF, ENC_NAN, ENC_MIN, ENC_MAX;
extern const bool POL_HAS_NAN, POL_HAS_INF, POL_CHECK_OVERFLOW;
const B ENC_PINF = EI::plus_infinity;
const B ENC_MINF = EI::minus_infinity;
const B ENC_NAN = EI::not_a_number;
const B ENC_MIN = EI::min;
const B ENC_MAX = EI::max;
const bool POL_HAS_NAN = Check_Overflow_Policy<B>::has_nan;
const bool POL_HAS_INF = Check_Overflow_Policy<B>::has_infinity;
const bool POL_CHECK_OVERFLOW = Check_Overflow_Policy<B>::check_overflow;

bool w_OK(const ITV& x) { return x.OK(); }
bool w_is_empty(const ITV& x) { return x.is_empty(); }
bool w_is_singleton(const ITV& x) { return x.is_singleton(); }
I_Result w_assign(ITV& to, const ITV& x) { return to.assign(x); }
I_Result w_assign_scalar(ITV& to, const B& x) { return to.assign(x); }
I_Result w_neg(ITV& to, const ITV& x) { return to.neg_assign(x); }
I_Result w_add(ITV& to, const ITV& x, const ITV& y) { return to.add_assign(x, y); }
I_Result w_sub(ITV& to, const ITV& x, const ITV& y) { return to.sub_assign(x, y); }
I_Result w_mul(ITV& to, const ITV& x, const ITV& y) { return to.mul_assign(x, y); }
I_Result w_div(ITV& to, const ITV& x, const ITV& y) { return to.div_assign(x, y); }
I_Result w_add_scalar(ITV& to, const ITV& x, const B& y) { return to.add_assign(x, y); }
I_Result w_mul_scalar(ITV& to, const ITV& x, const B& y) { return to.mul_assign(x, y); }
I_Result w_join(ITV& to, const ITV& x) { return to.join_assign(x); }
I_Result w_join2(ITV& to, const ITV& x, const ITV& y) { return to.join_assign(x, y); }
I_Result w_intersect(ITV& to, const ITV& x) { return to.intersect_assign(x); }
I_Result w_intersect2(ITV& to, const ITV& x, const ITV& y) { return to.intersect_assign(x, y); }
I_Result w_difference(ITV& to, const ITV& x) { return to.difference_assign(x); }
I_Result w_difference2(ITV& to, const ITV& x, const ITV& y) { return to.difference_assign(x, y); }
I_Result w_refine_existential(ITV& to, Relation_Symbol rel, const ITV& x) { return to.refine_existential(rel, x); }
I_Result w_refine_universal(ITV& to, Relation_Symbol rel, const ITV& x) { return to.refine_universal(rel, x); }
I_Result w_wrap(ITV& to, Bounded_Integer_Type_Width w, Bounded_Integer_Type_Representation r, const ITV& ref) { return to.wrap_assign(w, r, ref); }
bool w_contains(const ITV& x, const ITV& y) { return x.contains(y); }
bool w_strictly_contains(const ITV& x, const ITV& y) { return x.strictly_contains(y); }
bool w_is_disjoint_from(const ITV& x, const ITV& y) { return x.is_disjoint_from(y); }
bool w_equal(const ITV& x, const ITV& y) { return x == y; }
bool w_can_be_exactly_joined_to(const ITV& x, const ITV& y) { return x.can_be_exactly_joined_to(y); }
bool w_contains_scalar(const ITV& x, const B& y) { return x.contains(y); }
}
