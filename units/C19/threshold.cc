/* C19 unit (c): the deterministic (weight based) watcher, as the library instantiates it
   (Weightwatch = Threshold_Watcher<Weightwatch_Traits>).  Single-call wrappers over the private
   static member functions (the unit is compiled with -fno-access-control). */
#include "ppl-config.h"
#include "globals_defs.hh"
#include "Threshold_Watcher_defs.hh"
using namespace Parma_Polyhedra_Library;
typedef Threshold_Watcher<Weightwatch_Traits> TW;
/* the library defines these in globals.cc */
Weightwatch_Traits::Threshold Weightwatch_Traits::weight = 0;
void (*Weightwatch_Traits::check_function)(void) = 0;
extern "C" {
TW::TW_Pending_List::iterator w_add_threshold(Weightwatch_Traits::Threshold t, const TW::TW_Handler& h, bool& f) { return TW::add_threshold(t, h, f); }
TW::TW_Pending_List::iterator w_remove_threshold(TW::TW_Pending_List::iterator pos) { return TW::remove_threshold(pos); }
void w_check() { TW::check(); }
}
