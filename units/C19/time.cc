/* C19 unit (a): the Time arithmetic behind the watchdog deadlines and the weight
   comparison behind the deterministic watcher.  Single-call wrappers. */
#include "ppl-config.h"
#include "Watchdog_defs.hh"
#include "globals_defs.hh"
#include "Time.cc"   /* Time::OK() lives in the library source file: compile the real text */
using namespace Parma_Polyhedra_Library;
typedef Implementation::Watchdog::Time Time;
extern "C" {
extern const long USECS_PER_SEC_, CSECS_PER_SEC_;
const long USECS_PER_SEC_ = Time::USECS_PER_SEC;
const long CSECS_PER_SEC_ = Time::CSECS_PER_SEC;
void w_ctor_csecs(Time* t, long cs) { new (t) Time(cs); }
void w_ctor_s_us(Time* t, long s, long us) { new (t) Time(s, us); }
bool w_OK(const Time& t) { return t.OK(); }
Time& w_add_assign(Time& x, const Time& y) { return x += y; }
Time& w_sub_assign(Time& x, const Time& y) { return x -= y; }
Time w_add(const Time& x, const Time& y) { return x + y; }
Time w_sub(const Time& x, const Time& y) { return x - y; }
bool w_eq(const Time& x, const Time& y) { return x == y; }
bool w_ne(const Time& x, const Time& y) { return x != y; }
bool w_lt(const Time& x, const Time& y) { return x < y; }
bool w_le(const Time& x, const Time& y) { return x <= y; }
bool w_gt(const Time& x, const Time& y) { return x > y; }
bool w_ge(const Time& x, const Time& y) { return x >= y; }
bool w_wd_less_than(const Time& x, const Time& y) { return Watchdog_Traits::less_than(x, y); }
bool w_ww_less_than(const Weightwatch_Traits::Threshold& a, const Weightwatch_Traits::Threshold& b) { return Weightwatch_Traits::less_than(a, b); }
void w_ww_from_delta(Weightwatch_Traits::Threshold& t, const Weightwatch_Traits::Delta& d) { Weightwatch_Traits::from_delta(t, d); }
Weightwatch_Traits::Delta w_ww_compute_delta(unsigned long u, unsigned s) { return Weightwatch_Traits::compute_delta(u, s); }
}
