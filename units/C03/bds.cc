/* C03 unit: BD_Shape<VT> over a native integer type (entries are Checked_Number<VT, WRD_Extended_Number_Policy>),
   the operations whose operands are only shapes.  Single-call wrappers; compiled with -fno-access-control. */
#include "ppl_header.hh"
using namespace Parma_Polyhedra_Library;
#ifndef VT
# error "define VT"
#endif
typedef BD_Shape<VT> BDS;
typedef Checked::Extended_Int<WRD_Extended_Number_Policy, VT> EI;
extern "C" {
/* read from the code: status flag bits and the encodings of the special values of a matrix entry */
extern const unsigned ST_EMPTY, ST_CLOSED, ST_REDUCED;
extern const VT ENC_PINF, ENC_MINF, ENC_NAN, ENC_MIN, ENC_MAX;
extern const bool POL_HAS_NAN, POL_HAS_INF;
const unsigned ST_EMPTY = BDS::Status::EMPTY;
const unsigned ST_CLOSED = BDS::Status::SHORTEST_PATH_CLOSED;
const unsigned ST_REDUCED = BDS::Status::SHORTEST_PATH_REDUCED;
const VT ENC_PINF = EI::plus_infinity; const VT ENC_MINF = EI::minus_infinity; const VT ENC_NAN = EI::not_a_number;
const VT ENC_MIN = EI::min; const VT ENC_MAX = EI::max;
const bool POL_HAS_NAN = WRD_Extended_Number_Policy::has_nan; const bool POL_HAS_INF = WRD_Extended_Number_Policy::has_infinity;
void w_closure(const BDS& x) { x.shortest_path_closure_assign(); }
void w_reduction(const BDS& x) { x.shortest_path_reduction_assign(); }
void w_intersection(BDS& x, const BDS& y) { x.intersection_assign(y); }
void w_upper_bound(BDS& x, const BDS& y) { x.upper_bound_assign(y); }
bool w_contains(const BDS& x, const BDS& y) { return x.contains(y); }
bool w_strictly_contains(const BDS& x, const BDS& y) { return x.strictly_contains(y); }
bool w_is_disjoint_from(const BDS& x, const BDS& y) { return x.is_disjoint_from(y); }
bool w_equal(const BDS& x, const BDS& y) { return x == y; }
bool w_is_empty(const BDS& x) { return x.is_empty(); }
bool w_is_universe(const BDS& x) { return x.is_universe(); }
bool w_is_bounded(const BDS& x) { return x.is_bounded(); }
bool w_OK(const BDS& x) { return x.OK(); }
void w_add_dims_embed(BDS& x, dimension_type m) { x.add_space_dimensions_and_embed(m); }
void w_add_dims_project(BDS& x, dimension_type m) { x.add_space_dimensions_and_project(m); }
void w_remove_higher_dims(BDS& x, dimension_type n) { x.remove_higher_space_dimensions(n); }
void w_time_elapse(BDS& x, const BDS& y) { x.time_elapse_assign(y); }
void w_difference(BDS& x, const BDS& y) { x.difference_assign(y); }
}
/* CC76 extrapolation with caller-supplied stop points and no tokens (check C08) */
extern "C" {
void w_cc76(BDS& x, const BDS& y, const BDS::coefficient_type* first, const BDS::coefficient_type* last) { x.CC76_extrapolation_assign(y, first, last, 0); }
}
