/* C03 unit (octagons): Octagonal_Shape<VT> over a native integer type, the operations whose operands are only
   shapes.  Single-call wrappers; compiled with -fno-access-control. */
#include "ppl_header.hh"
using namespace Parma_Polyhedra_Library;
#ifndef VT
# error "define VT"
#endif
typedef Octagonal_Shape<VT> OCT;
typedef Checked::Extended_Int<WRD_Extended_Number_Policy, VT> EI;
extern "C" {
extern const unsigned OST_EMPTY, OST_CLOSED;
extern const VT ENC_PINF, ENC_MINF, ENC_NAN, ENC_MIN, ENC_MAX;
extern const bool POL_HAS_NAN, POL_HAS_INF;
const unsigned OST_EMPTY = OCT::Status::EMPTY;
const unsigned OST_CLOSED = OCT::Status::STRONGLY_CLOSED;
const VT ENC_PINF = EI::plus_infinity; const VT ENC_MINF = EI::minus_infinity; const VT ENC_NAN = EI::not_a_number;
const VT ENC_MIN = EI::min; const VT ENC_MAX = EI::max;
const bool POL_HAS_NAN = WRD_Extended_Number_Policy::has_nan; const bool POL_HAS_INF = WRD_Extended_Number_Policy::has_infinity;
void w_o_closure(const OCT& x) { x.strong_closure_assign(); }
bool w_o_is_empty(const OCT& x) { return x.is_empty(); }
void w_o_intersection(OCT& x, const OCT& y) { x.intersection_assign(y); }
bool w_o_contains(const OCT& x, const OCT& y) { return x.contains(y); }
bool w_o_is_disjoint_from(const OCT& x, const OCT& y) { return x.is_disjoint_from(y); }
bool w_o_equal(const OCT& x, const OCT& y) { return x == y; }
}
