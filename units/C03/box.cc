/* C03 unit (boxes): Box<Interval<VB, INFO>> -- the shipped Int8_Box ... Int64_Box (VPOL=1) and the same
   intervals under the Rational info policy (VPOL=2) -- the operations whose operands are only boxes.
   Reuses the interval instantiations and exported constants of units/C12/interval.cc.
   Single-call wrappers; compiled with -fno-access-control. */
#include "../C12/interval.cc"
typedef Box<ITV> BOX;
extern "C" {
/* status bits, read from the code */
extern const unsigned BST_EMPTY_UP_TO_DATE, BST_EMPTY, BST_UNIVERSE;
const unsigned BST_EMPTY_UP_TO_DATE = BOX::Status::EMPTY_UP_TO_DATE;
const unsigned BST_EMPTY = BOX::Status::EMPTY;
const unsigned BST_UNIVERSE = BOX::Status::UNIVERSE;
bool w_b_OK(const BOX& x) { return x.OK(); }
bool w_b_is_empty(const BOX& x) { return x.is_empty(); }
bool w_b_is_universe(const BOX& x) { return x.is_universe(); }
bool w_b_is_bounded(const BOX& x) { return x.is_bounded(); }
bool w_b_is_discrete(const BOX& x) { return x.is_discrete(); }
bool w_b_is_topologically_closed(const BOX& x) { return x.is_topologically_closed(); }
bool w_b_contains_integer_point(const BOX& x) { return x.contains_integer_point(); }
bool w_b_contains(const BOX& x, const BOX& y) { return x.contains(y); }
bool w_b_strictly_contains(const BOX& x, const BOX& y) { return x.strictly_contains(y); }
bool w_b_is_disjoint_from(const BOX& x, const BOX& y) { return x.is_disjoint_from(y); }
bool w_b_equal(const BOX& x, const BOX& y) { return x == y; }
void w_b_intersection(BOX& x, const BOX& y) { x.intersection_assign(y); }
void w_b_upper_bound(BOX& x, const BOX& y) { x.upper_bound_assign(y); }
bool w_b_upper_bound_if_exact(BOX& x, const BOX& y) { return x.upper_bound_assign_if_exact(y); }
void w_b_difference(BOX& x, const BOX& y) { x.difference_assign(y); }
void w_b_time_elapse(BOX& x, const BOX& y) { x.time_elapse_assign(y); }
void w_b_topological_closure(BOX& x) { x.topological_closure_assign(); }
void w_b_unconstrain(BOX& x, dimension_type v) { x.unconstrain(Variable(v)); }
void w_b_cc76(BOX& x, const BOX& y, unsigned* tp) { x.CC76_widening_assign(y, tp); }
}
/* value semantics of boxes (check C13) */
extern "C" {
void w_b_copy(BOX* raw, const BOX& y) { new (raw) BOX(y); }
void w_b_assign(BOX& x, const BOX& y) { x = y; }
void w_b_swap(BOX& x, BOX& y) { x.m_swap(y); }
}
