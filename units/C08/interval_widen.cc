/* C08 unit: the interval instantiations of units/C12/interval.cc plus the CC76 interval widening, called
   the way Box<ITV>::CC76_widening_assign calls it (stop points given by a pointer range of boundary values). */
#include "../C12/interval.cc"
extern "C" {
void w_cc76(ITV& x, const ITV& y, const B* first, const B* last) { x.CC76_widening_assign(y, first, last); }
}
