/* C11 unit: instantiates the checked-arithmetic primitives of the library for
   one native integer type T under one policy P (both given with -D), exactly
   as BD_Shape<T>, Octagonal_Shape<T>, Interval<T,...> and assign_r & co. do.
   Each extern "C" wrapper w_<op> consists of a single call: the callee is the
   function placed under contract (tools/vlib.py resolves FN_<op> to it).  */
#include "ppl_header.hh"
using namespace Parma_Polyhedra_Library;
#ifndef VT
# error "define VT (native integer type) and VP (policy)"
#endif
typedef VP Pol;
typedef VT T;
typedef Checked::Extended_Int<Pol, T> EI;

extern "C" {
/* the policy's encodings and switches, read from the code (see contracts/C11/spec.h) */
extern const T ENC_PINF, ENC_MINF, ENC_NAN, ENC_MIN, ENC_MAX;
extern const bool POL_HAS_NAN, POL_HAS_INF, POL_CHECK_OVERFLOW;
const T ENC_PINF = EI::plus_infinity;
const T ENC_MINF = EI::minus_infinity;
const T ENC_NAN = EI::not_a_number;
const T ENC_MIN = EI::min;
const T ENC_MAX = EI::max;
const bool POL_HAS_NAN = Pol::has_nan;
const bool POL_HAS_INF = Pol::has_infinity;
const bool POL_CHECK_OVERFLOW = Pol::check_overflow;

/* ---- native layer (finite operands) ---- */
Result w_classify(const T& v, bool nan, bool inf, bool sign) { return Checked::classify<Pol>(v, nan, inf, sign); }
bool w_is_nan(const T& v) { return Checked::is_nan<Pol>(v); }
bool w_is_minf(const T& v) { return Checked::is_minf<Pol>(v); }
bool w_is_pinf(const T& v) { return Checked::is_pinf<Pol>(v); }
bool w_is_int(const T& v) { return Checked::is_int<Pol>(v); }
Result w_assign_special(T& v, Result_Class c, Rounding_Dir d) { return Checked::assign_special<Pol>(v, c, d); }
Result w_assign(T& to, const T& x, Rounding_Dir d) { return Checked::assign<Pol, Pol>(to, x, d); }
Result w_neg(T& to, const T& x, Rounding_Dir d) { return Checked::neg<Pol, Pol>(to, x, d); }
Result w_abs(T& to, const T& x, Rounding_Dir d) { return Checked::abs<Pol, Pol>(to, x, d); }
Result w_floor(T& to, const T& x, Rounding_Dir d) { return Checked::floor<Pol, Pol>(to, x, d); }
Result w_ceil(T& to, const T& x, Rounding_Dir d) { return Checked::ceil<Pol, Pol>(to, x, d); }
Result w_trunc(T& to, const T& x, Rounding_Dir d) { return Checked::trunc<Pol, Pol>(to, x, d); }
Result w_sqrt(T& to, const T& x, Rounding_Dir d) { return Checked::sqrt<Pol, Pol>(to, x, d); }
Result w_add(T& to, const T& x, const T& y, Rounding_Dir d) { return Checked::add<Pol, Pol, Pol>(to, x, y, d); }
Result w_sub(T& to, const T& x, const T& y, Rounding_Dir d) { return Checked::sub<Pol, Pol, Pol>(to, x, y, d); }
Result w_mul(T& to, const T& x, const T& y, Rounding_Dir d) { return Checked::mul<Pol, Pol, Pol>(to, x, y, d); }
Result w_div(T& to, const T& x, const T& y, Rounding_Dir d) { return Checked::div<Pol, Pol, Pol>(to, x, y, d); }
Result w_idiv(T& to, const T& x, const T& y, Rounding_Dir d) { return Checked::idiv<Pol, Pol, Pol>(to, x, y, d); }
Result w_rem(T& to, const T& x, const T& y, Rounding_Dir d) { return Checked::rem<Pol, Pol, Pol>(to, x, y, d); }
Result w_add_mul(T& to, const T& x, const T& y, Rounding_Dir d) { return Checked::add_mul<Pol, Pol, Pol>(to, x, y, d); }
Result w_sub_mul(T& to, const T& x, const T& y, Rounding_Dir d) { return Checked::sub_mul<Pol, Pol, Pol>(to, x, y, d); }
Result w_gcd(T& to, const T& x, const T& y, Rounding_Dir d) { return Checked::gcd<Pol, Pol, Pol>(to, x, y, d); }
Result w_lcm(T& to, const T& x, const T& y, Rounding_Dir d) { return Checked::lcm<Pol, Pol, Pol>(to, x, y, d); }
Result w_add_2exp(T& to, const T& x, unsigned int e, Rounding_Dir d) { return Checked::add_2exp<Pol, Pol>(to, x, e, d); }
Result w_sub_2exp(T& to, const T& x, unsigned int e, Rounding_Dir d) { return Checked::sub_2exp<Pol, Pol>(to, x, e, d); }
Result w_mul_2exp(T& to, const T& x, unsigned int e, Rounding_Dir d) { return Checked::mul_2exp<Pol, Pol>(to, x, e, d); }
Result w_div_2exp(T& to, const T& x, unsigned int e, Rounding_Dir d) { return Checked::div_2exp<Pol, Pol>(to, x, e, d); }
Result w_smod_2exp(T& to, const T& x, unsigned int e, Rounding_Dir d) { return Checked::smod_2exp<Pol, Pol>(to, x, e, d); }
Result w_umod_2exp(T& to, const T& x, unsigned int e, Rounding_Dir d) { return Checked::umod_2exp<Pol, Pol>(to, x, e, d); }
Result_Relation w_sgn(const T& x) { return Checked::sgn<Pol>(x); }
Result_Relation w_cmp(const T& x, const T& y) { return Checked::cmp<Pol, Pol>(x, y); }

/* ---- extended layer (operands may be +inf, -inf, NaN) ---- */
Result w_assign_ext(T& to, const T& x, Rounding_Dir d) { return Checked::assign_ext<Pol, Pol>(to, x, d); }
Result w_neg_ext(T& to, const T& x, Rounding_Dir d) { return Checked::neg_ext<Pol, Pol>(to, x, d); }
Result w_abs_ext(T& to, const T& x, Rounding_Dir d) { return Checked::abs_ext<Pol, Pol>(to, x, d); }
Result w_floor_ext(T& to, const T& x, Rounding_Dir d) { return Checked::floor_ext<Pol, Pol>(to, x, d); }
Result w_ceil_ext(T& to, const T& x, Rounding_Dir d) { return Checked::ceil_ext<Pol, Pol>(to, x, d); }
Result w_trunc_ext(T& to, const T& x, Rounding_Dir d) { return Checked::trunc_ext<Pol, Pol>(to, x, d); }
Result w_sqrt_ext(T& to, const T& x, Rounding_Dir d) { return Checked::sqrt_ext<Pol, Pol>(to, x, d); }
Result w_add_ext(T& to, const T& x, const T& y, Rounding_Dir d) { return Checked::add_ext<Pol, Pol, Pol>(to, x, y, d); }
Result w_sub_ext(T& to, const T& x, const T& y, Rounding_Dir d) { return Checked::sub_ext<Pol, Pol, Pol>(to, x, y, d); }
Result w_mul_ext(T& to, const T& x, const T& y, Rounding_Dir d) { return Checked::mul_ext<Pol, Pol, Pol>(to, x, y, d); }
Result w_div_ext(T& to, const T& x, const T& y, Rounding_Dir d) { return Checked::div_ext<Pol, Pol, Pol>(to, x, y, d); }
Result w_idiv_ext(T& to, const T& x, const T& y, Rounding_Dir d) { return Checked::idiv_ext<Pol, Pol, Pol>(to, x, y, d); }
Result w_rem_ext(T& to, const T& x, const T& y, Rounding_Dir d) { return Checked::rem_ext<Pol, Pol, Pol>(to, x, y, d); }
Result w_add_mul_ext(T& to, const T& x, const T& y, Rounding_Dir d) { return Checked::add_mul_ext<Pol, Pol, Pol>(to, x, y, d); }
Result w_sub_mul_ext(T& to, const T& x, const T& y, Rounding_Dir d) { return Checked::sub_mul_ext<Pol, Pol, Pol>(to, x, y, d); }
Result w_gcd_ext(T& to, const T& x, const T& y, Rounding_Dir d) { return Checked::gcd_ext<Pol, Pol, Pol>(to, x, y, d); }
Result w_lcm_ext(T& to, const T& x, const T& y, Rounding_Dir d) { return Checked::lcm_ext<Pol, Pol, Pol>(to, x, y, d); }
Result w_add_2exp_ext(T& to, const T& x, unsigned int e, Rounding_Dir d) { return Checked::add_2exp_ext<Pol, Pol>(to, x, e, d); }
Result w_sub_2exp_ext(T& to, const T& x, unsigned int e, Rounding_Dir d) { return Checked::sub_2exp_ext<Pol, Pol>(to, x, e, d); }
Result w_mul_2exp_ext(T& to, const T& x, unsigned int e, Rounding_Dir d) { return Checked::mul_2exp_ext<Pol, Pol>(to, x, e, d); }
Result w_div_2exp_ext(T& to, const T& x, unsigned int e, Rounding_Dir d) { return Checked::div_2exp_ext<Pol, Pol>(to, x, e, d); }
Result w_smod_2exp_ext(T& to, const T& x, unsigned int e, Rounding_Dir d) { return Checked::smod_2exp_ext<Pol, Pol>(to, x, e, d); }
Result w_umod_2exp_ext(T& to, const T& x, unsigned int e, Rounding_Dir d) { return Checked::umod_2exp_ext<Pol, Pol>(to, x, e, d); }
Result_Relation w_sgn_ext(const T& x) { return Checked::sgn_ext<Pol>(x); }
Result_Relation w_cmp_ext(const T& x, const T& y) { return Checked::cmp_ext<Pol, Pol>(x, y); }
bool w_lt_ext(const T& x, const T& y) { return Checked::lt_ext<Pol, Pol>(x, y); }
bool w_le_ext(const T& x, const T& y) { return Checked::le_ext<Pol, Pol>(x, y); }
bool w_gt_ext(const T& x, const T& y) { return Checked::gt_ext<Pol, Pol>(x, y); }
bool w_ge_ext(const T& x, const T& y) { return Checked::ge_ext<Pol, Pol>(x, y); }
bool w_eq_ext(const T& x, const T& y) { return Checked::eq_ext<Pol, Pol>(x, y); }
bool w_ne_ext(const T& x, const T& y) { return Checked::ne_ext<Pol, Pol>(x, y); }
}
