/* C11 unit (mixed-type assignment): Checked::assign / assign_ext from a native integer type VF to a native
   integer type VT under one policy VP -- the conversions assign_r(), Checked_Number's converting constructors and
   the Boundary layer use between integer types of different width or signedness.  Single-call wrappers. */
#include "ppl_header.hh"
using namespace Parma_Polyhedra_Library;
#if !defined(VT) || !defined(VF) || !defined(VP)
# error "define VT (destination type), VF (source type) and VP (policy)"
#endif
typedef VP Pol; typedef VT T; typedef VF F;
typedef Checked::Extended_Int<Pol, T> EI;
typedef Checked::Extended_Int<Pol, F> EF;
extern "C" {
extern const T ENC_PINF, ENC_MINF, ENC_NAN, ENC_MIN, ENC_MAX;
extern const F ENC_F_PINF, ENC_F_MINF, ENC_F_NAN, ENC_F_MIN, ENC_F_MAX;
extern const bool POL_HAS_NAN, POL_HAS_INF, POL_CHECK_OVERFLOW;
const T ENC_PINF = EI::plus_infinity; const T ENC_MINF = EI::minus_infinity; const T ENC_NAN = EI::not_a_number;
const T ENC_MIN = EI::min; const T ENC_MAX = EI::max;
const F ENC_F_PINF = EF::plus_infinity; const F ENC_F_MINF = EF::minus_infinity; const F ENC_F_NAN = EF::not_a_number;
const F ENC_F_MIN = EF::min; const F ENC_F_MAX = EF::max;
const bool POL_HAS_NAN = Pol::has_nan; const bool POL_HAS_INF = Pol::has_infinity; const bool POL_CHECK_OVERFLOW = Pol::check_overflow;
Result w_assign_mixed(T& to, const F& x, Rounding_Dir d) { return Checked::assign<Pol, Pol>(to, x, d); }
Result w_assign_mixed_ext(T& to, const F& x, Rounding_Dir d) { return Checked::assign_ext<Pol, Pol>(to, x, d); }
}
