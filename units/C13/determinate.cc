/* C13 unit: the copy-on-write wrapper Determinate<PSET> that gives powerset disjuncts value semantics.
   The reference-counting protocol does not depend on PSET; the template is instantiated here with a
   minimal pointset class VSet that carries a value identifier (the assumed contract of every PSET used
   with Determinate: the copy constructor yields an equal value, binary operations are functions of the
   two values and do not modify their const argument). */
#include "ppl-config.h"
#include "globals_defs.hh"
#include "Determinate_defs.hh"
using namespace Parma_Polyhedra_Library;
extern "C" { extern unsigned long G_copies, G_destroyed; unsigned long G_copies, G_destroyed; }
struct VSet {
  unsigned long value;
  VSet(const VSet& y) : value(y.value) { ++G_copies; }
  ~VSet() { ++G_destroyed; }
  // x.op(y): the new value is a function of the two values (here: a pairing), y is not modified.
  void upper_bound_assign(const VSet& y) { value = value * 31 + y.value + 1; }
  void intersection_assign(const VSet& y) { value = value * 37 + y.value + 2; }
  bool OK() const { return true; }
};
typedef Determinate<VSet> D;
extern "C" {
void w_copy_ctor(D* to, const D& y) { new (to) D(y); }
void w_dtor(D* x) { x->~D(); }
D& w_assign(D& x, const D& y) { return x = y; }
void w_m_swap(D& x, D& y) { x.m_swap(y); }
void w_mutate(D& x) { x.mutate(); }
VSet& w_pointset(D& x) { return x.pointset(); }
void w_upper_bound_assign(D& x, const D& y) { x.upper_bound_assign(y); }
void w_meet_assign(D& x, const D& y) { x.meet_assign(y); }
}
