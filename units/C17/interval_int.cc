/* C17 unit: the interval instantiations of units/C12/interval.cc plus the integer-aware operations.
   Each extern "C" wrapper is a single call; its callee is the function placed under contract. */
#include "../C12/interval.cc"
extern "C" {
void w_drop(ITV& to) { to.drop_some_non_integer_points(); }
bool w_contains_integer_point(const ITV& x) { return x.contains_integer_point(); }
}
