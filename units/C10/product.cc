/* C10 unit: Partially_Reduced_Product<Box<ITV>, Box<ITV>, R> with R = Smash_Reduction (VRED=1) or No_Reduction
   (VRED=2) over the box instantiations of units/C03/box.cc -- the product template and the reduction are the
   real code, and so are both components.  Single-call wrappers; compiled with -fno-access-control. */
#include "../C03/box.cc"
#if VRED == 1
typedef Smash_Reduction<BOX, BOX> RED;
#elif VRED == 2
typedef No_Reduction<BOX, BOX> RED;
#else
# error "define VRED"
#endif
typedef Partially_Reduced_Product<BOX, BOX, RED> PROD;
extern "C" {
bool w_p_OK(const PROD& x) { return x.OK(); }
bool w_p_reduce(const PROD& x) { return x.reduce(); }
bool w_p_is_empty(const PROD& x) { return x.is_empty(); }
bool w_p_is_universe(const PROD& x) { return x.is_universe(); }
bool w_p_is_bounded(const PROD& x) { return x.is_bounded(); }
bool w_p_is_discrete(const PROD& x) { return x.is_discrete(); }
bool w_p_is_topologically_closed(const PROD& x) { return x.is_topologically_closed(); }
bool w_p_contains(const PROD& x, const PROD& y) { return x.contains(y); }
bool w_p_is_disjoint_from(const PROD& x, const PROD& y) { return x.is_disjoint_from(y); }
bool w_p_equal(const PROD& x, const PROD& y) { return x == y; }
void w_p_intersection(PROD& x, const PROD& y) { x.intersection_assign(y); }
void w_p_upper_bound(PROD& x, const PROD& y) { x.upper_bound_assign(y); }
bool w_p_upper_bound_if_exact(PROD& x, const PROD& y) { return x.upper_bound_assign_if_exact(y); }
void w_p_difference(PROD& x, const PROD& y) { x.difference_assign(y); }
void w_p_topological_closure(PROD& x) { x.topological_closure_assign(); }
void w_p_widening(PROD& x, const PROD& y) { x.widening_assign(y, 0); }
}
