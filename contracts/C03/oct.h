/* C03 contracts (octagons): Octagonal_Shape<T> over a native integer type T (entries: Checked_Number<T, WRD>).
 *
 * BOUNDED in the space dimension (OD = 1, thorough only); matrix contents (every finite value of T and
 * +infinity), status flags and the ghost point are arbitrary.
 *
 * Abstract view: with v[2k] = p[k], v[2k+1] = -p[k], a shape denotes the points p with
 *        !marked_empty  and  for all stored cells (i, j):  M[i][j] = +inf  or  v[j] - v[i] <= M[i][j].
 * Soundness clauses only, as for BD shapes (bds.h).
 */
#ifndef VERIF_C03_OCT_H
#define VERIF_C03_OCT_H
#include "../C11/spec.h"
#if defined(VERIF_CBMC)
#ifndef OD
# error "define OD (space dimension)"
#endif
#define ON (2 * OD)                         /* rows */
#define OCELLS (2 * OD * (OD + 1))          /* stored cells of the pseudo-triangular matrix */
typedef struct { uint64_t size; T_u v[OCELLS]; } octblk_t;     /* DB_Row_Impl_Handler::Impl: size_ + entries */
typedef struct { OCT_T s; octblk_t blk; } oct_t;
oct_t G_OX, G_OY;
int64_t G_opt[OD];                          /* ghost point */
int G_osatX0, G_osatY0;
#define O_IMPL(b)  ((b)->f0.f0.f0.f0)
#define O_FLAGS(b) ((b)->f2.f0)
SPEC int o_row_first(int i) { return ((i + 1) * (i + 1)) / 2; }
SPEC int o_row_size(int i) { return (i | 1) + 1; }
SPEC T_u o_cell(const OCT_T *b, int i, int j) { return ((const T_u *)((const char *)O_IMPL(b) + 8))[o_row_first(i) + j]; }
SPEC int o_marked_empty(const OCT_T *b) { return (O_FLAGS(b) & OST_EMPTY) != 0; }
SPEC int64_t o_v(int k) { return (k & 1) ? -G_opt[k / 2] : G_opt[k / 2]; }
SPEC int osat(const OCT_T *b) {
  if (o_marked_empty(b)) return 0;
  for (int i = 0; i < ON; i++) for (int j = 0; j < ON; j++) if (j < o_row_size(i)) {
    T_u d = o_cell(b, i, j);
    if (x_cls(d) != CLS_PINF && !(x_cls(d) == CLS_FIN && o_v(j) - o_v(i) <= (int64_t)x_num(d))) return 0;
  }
  return 1;
}
/* well-formed operand: one block of OCELLS entries, no NaN, no -inf, +inf on the diagonal (Octagonal_Shape::OK()),
   flags: nothing known, or marked empty */
SPEC int oct_wf(const oct_t *x) {
  const OCT_T *b = &x->s;
  if ((const void *)O_IMPL(b) != (const void *)&x->blk || x->blk.size != OCELLS) return 0;
  if (b->f0.f1 != OD || b->f0.f2 != OCELLS || b->f1 != OD) return 0;
  if (O_FLAGS(b) != 0 && O_FLAGS(b) != OST_EMPTY) return 0;
  for (int i = 0; i < ON; i++) for (int j = 0; j < ON; j++) if (j < o_row_size(i)) {
    T_u d = x->blk.v[o_row_first(i) + j]; int c = x_cls(d);
    if (c == CLS_NAN || c == CLS_MINF) return 0;
    if (i == j && c != CLS_PINF) return 0;
    if (c == CLS_FIN && !x_in_range(d)) return 0;
  }
  return 1;
}
SPEC int opt_ok(void) { for (int k = 0; k < OD; k++) if (G_opt[k] < -OPT_RANGE || G_opt[k] > OPT_RANGE) return 0; return 1; }
#define FRAME_O __CPROVER_object_whole(&G_OX), __CPROVER_object_whole(&G_OY)
#define PRE_OX  PRE(wf_x, oct_wf(&G_OX) && x == &G_OX.s) PRE(point, opt_ok())
#define PRE_OXY PRE_OX PRE(wf_y, oct_wf(&G_OY) && y == &G_OY.s)
void FN_o_closure(const OCT_T *x) PRE_OX ASSIGNS(FRAME_O)
  POST(keeps_every_point, !G_osatX0 || osat(x));
_Bool FN_o_is_empty(const OCT_T *x) PRE_OX ASSIGNS(FRAME_O)
  POST(definite, !RET || !G_osatX0) POST(value_kept, !G_osatX0 || osat(x));
void FN_o_intersection(OCT_T *x, const OCT_T *y) PRE_OXY ASSIGNS(FRAME_O)
  POST(contains_meet, !(G_osatX0 && G_osatY0) || osat(x)) POST(y_kept, !G_osatY0 || osat(y));
_Bool FN_o_contains(const OCT_T *x, const OCT_T *y) PRE_OXY ASSIGNS(FRAME_O)
  POST(definite, !RET || !G_osatY0 || G_osatX0) POST(values_kept, (!G_osatX0 || osat(x)) && (!G_osatY0 || osat(y)));
_Bool FN_o_is_disjoint_from(const OCT_T *x, const OCT_T *y) PRE_OXY ASSIGNS(FRAME_O)
  POST(definite, !RET || !(G_osatX0 && G_osatY0));
_Bool FN_o_equal(const OCT_T *x, const OCT_T *y) PRE_OXY ASSIGNS(FRAME_O)
  POST(definite, !RET || (G_osatX0 == G_osatY0));
#endif
#endif
