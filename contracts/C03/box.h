/* C03 contracts (boxes) -- soundness only, as the property states it: "a point of the exact result is a point
 * of the returned element" and "a definite answer is true of the point sets".  Exactness of the answers and
 * tightness of the results are NOT demanded here (C03 allows enlargement), so a change that only loses
 * precision is not an alarm.  Representation invariant: box_wf holds again after every operation.
 * See box_base.h for the abstract view.
 */
#ifndef VERIF_C03_BOX_H
#define VERIF_C03_BOX_H
#include "box_base.h"
#if defined(VERIF_CBMC)
/* every operation leaves its operands well formed and never cuts points away from them */
#define KEEP_X  POST(x_wf, box_wf(x, G_xs)) POST(x_keeps_its_points, !G_satX0 || box_sat(x, G_xs))
#define KEEP_Y  POST(y_wf, box_wf(y, G_ys)) POST(y_keeps_its_points, !G_satY0 || box_sat(y, G_ys))

_Bool FN_b_is_empty(const BOX_T *x) PRE_BX ASSIGNS(FRAME_B)
  POST(definite, !RET || G_emptyX0) KEEP_X;
_Bool FN_b_is_universe(const BOX_T *x) PRE_BX ASSIGNS(FRAME_B)
  POST(definite, !RET || (!G_emptyX0 && ALLK(itv_universe(&G_xs[0]), itv_universe(&G_xs[1])))) KEEP_X;
_Bool FN_b_is_bounded(const BOX_T *x) PRE_BX ASSIGNS(FRAME_B)
  POST(definite, !RET || G_emptyX0 || ALLK(itv_bounded(&G_xs[0]), itv_bounded(&G_xs[1]))) KEEP_X;
_Bool FN_b_is_discrete(const BOX_T *x) PRE_BX ASSIGNS(FRAME_B)
  POST(definite, !RET || G_emptyX0 || ALLK(is_singleton_set(&G_xs[0]), is_singleton_set(&G_xs[1]))) KEEP_X;
_Bool FN_b_is_topologically_closed(const BOX_T *x) PRE_BX ASSIGNS(FRAME_B)
  POST(definite, !RET || G_emptyX0 || ALLK(itv_closed(&G_xs[0]), itv_closed(&G_xs[1]))) KEEP_X;

_Bool FN_b_contains(const BOX_T *x, const BOX_T *y) PRE_BXY ASSIGNS(FRAME_B)
  POST(definite, !RET || !G_satY0 || G_satX0)
  POST(definite_sets, !RET || G_emptyY0 || (!G_emptyX0 && ALLK(set_contains(&G_xs[0], &G_ys[0]), set_contains(&G_xs[1], &G_ys[1]))))
  KEEP_X KEEP_Y;
_Bool FN_b_strictly_contains(const BOX_T *x, const BOX_T *y) PRE_BXY ASSIGNS(FRAME_B)
  POST(definite, !RET || !G_satY0 || G_satX0)
  POST(definite_sets, !RET || ((G_emptyY0 || (!G_emptyX0 && ALLK(set_contains(&G_xs[0], &G_ys[0]), set_contains(&G_xs[1], &G_ys[1]))))
                               && !(G_emptyX0 ? G_emptyY0 : (!G_emptyY0 && ALLK(set_eq(&G_xs[0], &G_ys[0]), set_eq(&G_xs[1], &G_ys[1]))))))
  KEEP_X KEEP_Y;
_Bool FN_b_is_disjoint_from(const BOX_T *x, const BOX_T *y) PRE_BXY ASSIGNS(FRAME_B)
  POST(definite, !RET || !(G_satX0 && G_satY0))
  POST(definite_sets, !RET || G_emptyX0 || G_emptyY0 || ANYK(set_disjoint(&G_xs[0], &G_ys[0]), set_disjoint(&G_xs[1], &G_ys[1])))
  KEEP_X KEEP_Y;
_Bool FN_b_equal(const BOX_T *x, const BOX_T *y) PRE_BXY ASSIGNS(FRAME_B)
  POST(definite, !RET || (G_satX0 == G_satY0))
  POST(definite_sets, !RET || (G_emptyX0 ? G_emptyY0 : (!G_emptyY0 && ALLK(set_eq(&G_xs[0], &G_ys[0]), set_eq(&G_xs[1], &G_ys[1])))))
  KEEP_X KEEP_Y;

void FN_b_intersection(BOX_T *x, const BOX_T *y) PRE_BXY ASSIGNS(FRAME_B)
  POST(contains_meet, !(G_satX0 && G_satY0) || box_sat(x, G_xs))
  POST(x_wf, box_wf(x, G_xs)) KEEP_Y;
void FN_b_upper_bound(BOX_T *x, const BOX_T *y) PRE_BXY ASSIGNS(FRAME_B)
  POST(contains_join, !(G_satX0 || G_satY0) || box_sat(x, G_xs))
  POST(x_wf, box_wf(x, G_xs)) KEEP_Y;
/* upper_bound_assign_if_exact(y): whatever it answers, no point of x is lost; true => the result contains y as well */
_Bool FN_b_upper_bound_if_exact(BOX_T *x, const BOX_T *y) PRE_BXY ASSIGNS(FRAME_B)
  POST(contains_join_when_true, !RET || !(G_satX0 || G_satY0) || box_sat(x, G_xs))
  POST(keeps_x_when_false, RET || !G_satX0 || box_sat(x, G_xs))
  POST(x_wf, box_wf(x, G_xs)) KEEP_Y;
void FN_b_difference(BOX_T *x, const BOX_T *y) PRE_BXY ASSIGNS(FRAME_B)
  POST(contains_difference, !(G_satX0 && !G_satY0) || box_sat(x, G_xs))
  POST(x_wf, box_wf(x, G_xs)) KEEP_Y;
void FN_b_topological_closure(BOX_T *x) PRE_BX ASSIGNS(FRAME_B)
  POST(contains_x, !G_satX0 || box_sat(x, G_xs))
  POST(x_wf, box_wf(x, G_xs));
/* unconstrain(Variable(v)), v < BOX_D: every point that agrees with a point of x outside coordinate v */
void FN_b_unconstrain(BOX_T *x, uint64_t v) PRE_BX PRE(var, v < BOX_D) ASSIGNS(FRAME_B)
  POST(cylinder, G_emptyX0 || !ALLK(v == 0 || mem(&G_xs0[0], GP(0)), v == 1 || mem(&G_xs0[1], GP(1))) || box_sat(x, G_xs))
  POST(contains_x, !G_satX0 || box_sat(x, G_xs))
  POST(x_wf, box_wf(x, G_xs));
#endif
#endif
