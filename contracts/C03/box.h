/* C03 contracts (boxes) -- soundness only, as the property states it: "a point of the exact result is a point
 * of the returned element" and "a definite answer is true of the point sets".  Exactness of the answers and
 * tightness of the results are NOT demanded here (C03 allows enlargement), so a change that only loses
 * precision is not an alarm.  Representation invariant: box_wf holds again after every operation.
 * See box_base.h for the abstract view.  In the clause macros x and y are the operands (&G_bx, &G_by),
 * R the returned value, v the variable index of unconstrain().
 */
#ifndef VERIF_C03_BOX_H
#define VERIF_C03_BOX_H
#include "box_base.h"
/* every operation leaves its operands well formed and never cuts points away from them */
#define KEEP_X  POST(x_wf, box_wf(x, G_xs)) POST(x_keeps_its_points, !G_satX0 || box_sat(x, G_xs))
#ifndef BOX_ALIAS
#define KEEP_Y  POST(y_wf, box_wf(y, G_ys)) POST(y_keeps_its_points, !G_satY0 || box_sat(y, G_ys))
#else
#define KEEP_Y  /* y is x: what happens to it is said by the clauses about x */
#endif
#define SETS_CONTAIN (G_emptyY0 || (!G_emptyX0 && ALLK(set_contains(&G_xs[0], &G_ys[0]), set_contains(&G_xs[1], &G_ys[1]))))
#define SETS_EQUAL   (G_emptyX0 ? G_emptyY0 : (!G_emptyY0 && ALLK(set_eq(&G_xs[0], &G_ys[0]), set_eq(&G_xs[1], &G_ys[1]))))

#define C_b_is_empty_POSTS(R) \
  POST(definite, !(R) || G_emptyX0) KEEP_X
#define C_b_is_universe_POSTS(R) \
  POST(definite, !(R) || (!G_emptyX0 && ALLK(itv_universe(&G_xs[0]), itv_universe(&G_xs[1])))) KEEP_X
#define C_b_is_bounded_POSTS(R) \
  POST(definite, !(R) || G_emptyX0 || ALLK(itv_bounded(&G_xs[0]), itv_bounded(&G_xs[1]))) KEEP_X
#define C_b_is_discrete_POSTS(R) \
  POST(definite, !(R) || G_emptyX0 || ALLK(is_singleton_set(&G_xs[0]), is_singleton_set(&G_xs[1]))) KEEP_X
#define C_b_is_topologically_closed_POSTS(R) \
  POST(definite, !(R) || G_emptyX0 || ALLK(itv_closed(&G_xs[0]), itv_closed(&G_xs[1]))) KEEP_X
#define C_b_contains_POSTS(R) \
  POST(definite, !(R) || !G_satY0 || G_satX0) \
  POST(definite_sets, !(R) || SETS_CONTAIN) KEEP_X KEEP_Y
#define C_b_strictly_contains_POSTS(R) \
  POST(definite, !(R) || !G_satY0 || G_satX0) \
  POST(definite_sets, !(R) || (SETS_CONTAIN && !SETS_EQUAL)) KEEP_X KEEP_Y
#define C_b_is_disjoint_from_POSTS(R) \
  POST(definite, !(R) || !(G_satX0 && G_satY0)) \
  POST(definite_sets, !(R) || G_emptyX0 || G_emptyY0 || ANYK(set_disjoint(&G_xs[0], &G_ys[0]), set_disjoint(&G_xs[1], &G_ys[1]))) KEEP_X KEEP_Y
#define C_b_equal_POSTS(R) \
  POST(definite, !(R) || (G_satX0 == G_satY0)) \
  POST(definite_sets, !(R) || SETS_EQUAL) KEEP_X KEEP_Y
#define C_b_intersection_POSTS(R) \
  POST(contains_meet, !(G_satX0 && G_satY0) || box_sat(x, G_xs)) \
  POST(x_wf, box_wf(x, G_xs)) KEEP_Y
#define C_b_upper_bound_POSTS(R) \
  POST(contains_join, !(G_satX0 || G_satY0) || box_sat(x, G_xs)) \
  POST(x_wf, box_wf(x, G_xs)) KEEP_Y
/* upper_bound_assign_if_exact(y): whatever it answers, no point of x is lost; true => the result contains y as well */
#define C_b_upper_bound_if_exact_POSTS(R) \
  POST(contains_join_when_true, !(R) || !(G_satX0 || G_satY0) || box_sat(x, G_xs)) \
  POST(keeps_x_when_false, (R) || !G_satX0 || box_sat(x, G_xs)) \
  POST(x_wf, box_wf(x, G_xs)) KEEP_Y
#define C_b_difference_POSTS(R) \
  POST(contains_difference, !(G_satX0 && !G_satY0) || box_sat(x, G_xs)) \
  POST(x_wf, box_wf(x, G_xs)) KEEP_Y
/* time_elapse_assign(y): every point p + t*q with p in x, q in y, t >= 0 (stated for integer t; the real ones follow by convexity) */
#define C_b_time_elapse_POSTS(R) \
  POST(contains_elapsed_points, !(G_satX0 && G_satQ0 && G_t >= 0 && G_t <= 256) || box_sat_pt(x, G_xs, ELAPSED(0), ELAPSED(1))) \
  POST(x_wf, box_wf(x, G_xs)) KEEP_Y
#define C_b_topological_closure_POSTS(R) \
  POST(contains_x, !G_satX0 || box_sat(x, G_xs)) \
  POST(x_wf, box_wf(x, G_xs))
/* unconstrain(Variable(v)), v < BOX_D: every point that agrees with a point of x outside coordinate v */
#define C_b_unconstrain_POSTS(R) \
  POST(cylinder, G_emptyX0 || !ALLK(v == 0 || mem(&G_xs0[0], GP(0)), v == 1 || mem(&G_xs0[1], GP(1))) || box_sat(x, G_xs)) \
  POST(contains_x, !G_satX0 || box_sat(x, G_xs)) \
  POST(x_wf, box_wf(x, G_xs))

#if defined(VERIF_CBMC)
#define BOX_PRED1(OP) _Bool FN_b_##OP(const BOX_T *x) PRE_BX ASSIGNS(FRAME_B) C_b_##OP##_POSTS(RET);
#define BOX_PRED2(OP) _Bool FN_b_##OP(const BOX_T *x, const BOX_T *y) PRE_BXY ASSIGNS(FRAME_B) C_b_##OP##_POSTS(RET);
#define BOX_MUT2(OP)  void FN_b_##OP(BOX_T *x, const BOX_T *y) PRE_BXY ASSIGNS(FRAME_B) C_b_##OP##_POSTS(0);
BOX_PRED1(is_empty) BOX_PRED1(is_universe) BOX_PRED1(is_bounded) BOX_PRED1(is_discrete) BOX_PRED1(is_topologically_closed)
BOX_PRED2(contains) BOX_PRED2(strictly_contains) BOX_PRED2(is_disjoint_from) BOX_PRED2(equal)
BOX_MUT2(intersection) BOX_MUT2(upper_bound) BOX_MUT2(difference) BOX_MUT2(time_elapse)
_Bool FN_b_upper_bound_if_exact(BOX_T *x, const BOX_T *y) PRE_BXY ASSIGNS(FRAME_B) C_b_upper_bound_if_exact_POSTS(RET);
void FN_b_topological_closure(BOX_T *x) PRE_BX ASSIGNS(FRAME_B) C_b_topological_closure_POSTS(0);
void FN_b_unconstrain(BOX_T *x, uint64_t v) PRE_BX PRE(var, v < BOX_D) ASSIGNS(FRAME_B) C_b_unconstrain_POSTS(0);
#endif
#endif
