/* Box<Interval<B, Info>> over a native integer boundary type: abstract view, representation invariant and
 * harness objects shared by the box contracts of C03 (box.h), C17 (../C17/box_int.h) and C08 (../C08/box_widen.h).
 *
 * BOUNDED in the space dimension only: one task per dimension BOX_D <= 2; the intervals (bounds, special/open
 * bits), the status flags and the ghost point are arbitrary.  Every operation here is a loop of interval
 * operations (whose own contracts are check C12) plus the box's emptiness bookkeeping, so dimension 2 already
 * exercises "some dimension empty / not contained / disjoint while another is not".
 *
 * Abstract view: a box denotes the points p with  !marked_empty  and  p[k] in seq[k]  for every k.
 * Clauses have the C03 form "a point of the exact result is a point of the returned element" (ghost point,
 * near-standard coordinates) and "a definite answer is true of the point sets"; for the operations that are
 * exact on boxes by construction (meet, the comparisons and predicates) the converse is demanded as well.
 */
#ifndef VERIF_C03_BOX_BASE_H
#define VERIF_C03_BOX_BASE_H
#include "../C17/interval_int.h"
#ifndef BOX_D
# error "define BOX_D (space dimension, 0..2)"
#endif
#define BOX_N 2
#define BOX_BEGIN(b) ((b)->f0.f0.f0.f0.f0)
#define BOX_END(b)   ((b)->f0.f0.f0.f0.f1)
#define BOX_CAP(b)   ((b)->f0.f0.f0.f0.f2)
#define BOX_FLAGS(b) ((b)->f1.f0)
extern ITV_T G_xs[BOX_N], G_ys[BOX_N];     /* interval storage of the operands (harness objects) */
extern BOX_T G_bx, G_by;                   /* the operands */
extern ex_t G_pn[BOX_N]; extern int G_ps[BOX_N];   /* ghost point */
extern ITV_T G_xs0[BOX_N]; extern uint32_t G_fx0;  /* entry copy of x */
extern int G_satX0, G_satY0, G_emptyX0, G_emptyY0;
extern ex_t G_qn[BOX_N]; extern int G_qs[BOX_N]; extern int32_t G_t; extern int G_satQ0;   /* a second ghost point (in y) and a time step, for time_elapse_assign */
#define GQ(k) ns(G_qn[k], G_qs[k])
#define ELAPSED(k) ns_add(GP(k), ns_scale(GQ(k), (ex_t)G_t))
#ifdef BOX_ALIAS
/* aliased-argument variant (check C13): the second operand IS the first one */
# define G_ys G_xs
#endif
#define GP(k) ns(G_pn[k], G_ps[k])
#define ALLK(e0, e1) ((BOX_D < 1 || (e0)) && (BOX_D < 2 || (e1)))
#define ANYK(e0, e1) ((BOX_D >= 1 && (e0)) || (BOX_D >= 2 && (e1)))
SPEC int b_marked_empty(const BOX_T *b) { return (BOX_FLAGS(b) & BST_EMPTY_UP_TO_DATE) != 0 && (BOX_FLAGS(b) & BST_EMPTY) != 0; }
SPEC int b_marked_nonempty(const BOX_T *b) { return (BOX_FLAGS(b) & BST_EMPTY_UP_TO_DATE) != 0 && (BOX_FLAGS(b) & BST_EMPTY) == 0; }
/* what Box::OK() demands (written out: OK() itself copies the box), plus the layout the harness built */
SPEC int box_wf(const BOX_T *b, const ITV_T *seq) {
  if (BOX_BEGIN(b) != seq || BOX_END(b) != seq + BOX_D || BOX_CAP(b) != seq + BOX_D) return 0;
  /* only EMPTY_UP_TO_DATE and EMPTY are ever set: no Box code calls Status::set_universe() */
  if ((BOX_FLAGS(b) & ~(BST_EMPTY_UP_TO_DATE | BST_EMPTY)) != 0) return 0;
  if (b_marked_empty(b)) return 1;                       /* intervals of a box marked empty are meaningless */
  if (!ALLK(WF(&seq[0]), WF(&seq[1]))) return 0;
  if (b_marked_nonempty(b) && !ALLK(!is_empty_set(&seq[0]), !is_empty_set(&seq[1]))) return 0;
  return 1;
}
SPEC int pt_ok(void) { return ALLK(ns_ok(G_pn[0], G_ps[0]), ns_ok(G_pn[1], G_ps[1])); }
SPEC int box_sat(const BOX_T *b, const ITV_T *seq) { return !b_marked_empty(b) && ALLK(mem(&seq[0], GP(0)), mem(&seq[1], GP(1))); }
/* membership of an explicit point (a0, a1) */
SPEC int box_sat_pt(const BOX_T *b, const ITV_T *seq, ns_t a0, ns_t a1) { return !b_marked_empty(b) && ALLK(mem(&seq[0], a0), mem(&seq[1], a1)); }
SPEC int box_empty(const BOX_T *b, const ITV_T *seq) { return b_marked_empty(b) || ANYK(is_empty_set(&seq[0]), is_empty_set(&seq[1])); }
SPEC int itv_universe(const ITV_T *x) { return lo_inf(x) && hi_inf(x); }
SPEC int itv_bounded(const ITV_T *x) { return !lo_inf(x) && !hi_inf(x); }
SPEC int itv_closed(const ITV_T *x) { return (lo_inf(x) || !lo_open(x)) && (hi_inf(x) || !hi_open(x)); }

/* boxes whose storage is wherever the vector points (results of operations that reallocate or swap storage) */
#define SEQ(b) ((const ITV_T *)BOX_BEGIN(b))
/* a well-formed box wherever its storage lives */
SPEC int box_wf_any(const BOX_T *b) {
  if (BOX_END(b) != BOX_BEGIN(b) + BOX_D || BOX_CAP(b) < BOX_END(b)) return 0;
  if ((BOX_FLAGS(b) & ~(BST_EMPTY_UP_TO_DATE | BST_EMPTY)) != 0) return 0;
  if (b_marked_empty(b)) return 1;
  if (!ALLK(WF(&SEQ(b)[0]), WF(&SEQ(b)[1]))) return 0;
  if (b_marked_nonempty(b) && !ALLK(!is_empty_set(&SEQ(b)[0]), !is_empty_set(&SEQ(b)[1]))) return 0;
  return 1;
}
SPEC int bsat(const BOX_T *b) { return box_sat(b, SEQ(b)); }

#if defined(VERIF_CBMC)
#define FRAME_B __CPROVER_object_whole(G_xs), __CPROVER_object_whole(G_ys), __CPROVER_object_whole(&G_bx), __CPROVER_object_whole(&G_by)
#define PRE_BX  PRE(wf_x, x == &G_bx && box_wf(x, G_xs)) PRE(point, pt_ok())
#ifndef BOX_ALIAS
#define PRE_BXY PRE(wf_x, x == &G_bx && box_wf(x, G_xs)) PRE(wf_y, y == &G_by && box_wf(y, G_ys)) PRE(point, pt_ok())
#else
#define PRE_BXY PRE(wf_x, x == &G_bx && box_wf(x, G_xs)) PRE(aliased, y == x) PRE(point, pt_ok())
#endif
#endif
#endif
