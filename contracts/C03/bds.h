/* C03 contracts: BD_Shape<T> over a native integer type T (entries: Checked_Number<T, WRD_Extended_Number_Policy>).
 *
 * BOUNDED in the space dimension: one task per dimension D (matrix order N = D + 1); the matrix contents
 * (every finite value of T and +infinity, including values at the limits of T), the status flags and the
 * ghost point are arbitrary.
 *
 * Abstract view: a shape denotes the set of points p (p[0] = 0 is the special variable) with
 *        !marked_empty  and  for all i, j:  M[i][j] = +inf  or  p[j] - p[i] <= M[i][j].
 * C03 is a SOUNDNESS property -- results may be larger than exact, never smaller -- so every clause has the
 * form "a point of the exact result is a point of the returned element" (ghost point G_pt), or "a definite
 * answer is true of the point sets".  No tightness is demanded.
 */
#ifndef VERIF_C03_BDS_H
#define VERIF_C03_BDS_H
#include "../C11/spec.h"
#if defined(VERIF_CBMC)
#ifndef N
# error "define N (matrix order = space dimension + 1)"
#endif
#define BDS_T struct class_2eParma_Polyhedra_Library_3a_3aBD_Shape
#define ROW_T struct class_2eParma_Polyhedra_Library_3a_3aDB_Row
typedef struct { uint64_t size; T_u v[N]; } rowblk_t;          /* DB_Row_Impl_Handler::Impl: size_ + entries */
typedef struct { BDS_T s; ROW_T rows[N]; rowblk_t blk[N]; } shape_t;
shape_t G_X, G_Y;               /* the operands (harness objects) */
int64_t G_pt[N];                /* ghost point, G_pt[0] == 0 */
int G_satX0, G_satY0;           /* sat(point, operand) at entry */
#define ROWS(b) ((b)->f0.f0.f0.f0.f0.f0)
#define ROWS_END(b) ((b)->f0.f0.f0.f0.f0.f1)
#define NROWS(b) ((uint64_t)(ROWS_END(b) - ROWS(b)))
#define FLAGS(b) ((b)->f1.f0)
SPEC T_u *cellp(const BDS_T *b, int i, int j) { return (T_u *)((char *)ROWS(b)[i].f0.f0 + 8) + j; }
SPEC T_u cell(const BDS_T *b, int i, int j) { return *cellp(b, i, j); }
SPEC int marked_empty(const BDS_T *b) { return (FLAGS(b) & ST_EMPTY) != 0; }
/* the point satisfies every constraint of a matrix of order n (n <= N) */
SPEC int sat_n(const BDS_T *b, int n) {
  if (marked_empty(b)) return 0;
  for (int i = 0; i < N; i++) for (int j = 0; j < N; j++) if (i < n && j < n) {
    T_u d = cell(b, i, j);
    if (x_cls(d) != CLS_PINF && !(x_cls(d) == CLS_FIN && G_pt[j] - G_pt[i] <= (int64_t)x_num(d))) return 0;
  }
  return 1;
}
SPEC int sat(const BDS_T *b) { return sat_n(b, N); }
/* well-formed operand of order N: N rows of N entries, no NaN, no -inf, +inf on the diagonal
   (what BD_Shape::OK() demands of the matrix), flags: nothing known, or marked empty */
SPEC int shape_wf(const shape_t *x) {
  const BDS_T *b = &x->s;
  if (ROWS(b) != x->rows || ROWS_END(b) != x->rows + N || b->f0.f0.f0.f0.f0.f2 != x->rows + N) return 0;
  if (b->f0.f1 != N || b->f0.f2 != N) return 0;
  if (FLAGS(b) != 0 && FLAGS(b) != ST_EMPTY) return 0;
  for (int i = 0; i < N; i++) {
    if ((void *)x->rows[i].f0.f0 != (void *)&x->blk[i] || x->blk[i].size != N) return 0;
    for (int j = 0; j < N; j++) {
      int c = x_cls(x->blk[i].v[j]);
      if (c == CLS_NAN || c == CLS_MINF) return 0;
      if (i == j && c != CLS_PINF) return 0;
      if (c == CLS_FIN && !x_in_range(x->blk[i].v[j])) return 0;
    }
  }
  return 1;
}
SPEC int pt_ok(void) { if (G_pt[0] != 0) return 0; for (int i = 1; i < N; i++) if (G_pt[i] < -PT_RANGE || G_pt[i] > PT_RANGE) return 0; return 1; }
#define FRAME_XY __CPROVER_object_whole(&G_X), __CPROVER_object_whole(&G_Y)
#define PRE_X  PRE(wf_x, shape_wf(&G_X) && x == &G_X.s) PRE(point, pt_ok())
#define PRE_XY PRE(wf_x, shape_wf(&G_X) && x == &G_X.s) PRE(wf_y, shape_wf(&G_Y) && y == &G_Y.s) PRE(point, pt_ok())

#ifndef BDS_NO_CONTRACTS     /* (contracts/C14/bds_reject.h puts different contracts on the same functions) */
/* shortest_path_closure_assign(): tightens only with sound sums; emptiness is reported only when true */
void FN_closure(const BDS_T *x) PRE_X ASSIGNS(FRAME_XY)
  POST(keeps_every_point, !G_satX0 || sat(x));
/* is_empty(): a reported emptiness really holds */
_Bool FN_is_empty(const BDS_T *x) PRE_X ASSIGNS(FRAME_XY)
  POST(definite, !RET || !G_satX0) POST(value_kept, !G_satX0 || sat(x));
/* intersection_assign(y): contains every common point */
void FN_intersection(BDS_T *x, const BDS_T *y) PRE_XY ASSIGNS(FRAME_XY)
  POST(contains_meet, !(G_satX0 && G_satY0) || sat(x)) POST(y_kept, !G_satY0 || sat(y));
/* upper_bound_assign(y): contains every point of either argument */
void FN_upper_bound(BDS_T *x, const BDS_T *y) PRE_XY ASSIGNS(FRAME_XY)
  POST(contains_join, !(G_satX0 || G_satY0) || sat(x)) POST(y_kept, !G_satY0 || sat(y));
/* contains(y): a reported containment really holds */
_Bool FN_contains(const BDS_T *x, const BDS_T *y) PRE_XY ASSIGNS(FRAME_XY)
  POST(definite, !RET || !G_satY0 || G_satX0) POST(values_kept, (!G_satX0 || sat(x)) && (!G_satY0 || sat(y)));
_Bool FN_strictly_contains(const BDS_T *x, const BDS_T *y) PRE_XY ASSIGNS(FRAME_XY)
  POST(definite, !RET || !G_satY0 || G_satX0);
/* is_disjoint_from(y): a reported disjointness really holds */
_Bool FN_is_disjoint_from(const BDS_T *x, const BDS_T *y) PRE_XY ASSIGNS(FRAME_XY)
  POST(definite, !RET || !(G_satX0 && G_satY0));
/* operator==: reported equality means equal point sets */
_Bool FN_equal(const BDS_T *x, const BDS_T *y) PRE_XY ASSIGNS(FRAME_XY)
  POST(definite, !RET || (G_satX0 == G_satY0));
#endif
#endif
#endif
