/* dual.h -- the contract headers are read in two modes.
 *
 *  VERIF_CBMC   : the clauses become CBMC code-contract clauses on a prior
 *                 declaration of the real (mangled) function.
 *  VERIF_NATIVE : the same clause expressions are evaluated by the native
 *                 replay program on the values of the counterexample, against
 *                 the real C++ function (tools/vlib.py: write_replay).
 *
 * PRE(name, e)  one precondition clause     POST(name, e)  one postcondition clause
 */
#ifndef VERIF_DUAL_H
#define VERIF_DUAL_H
#include <stdint.h>
#if defined(VERIF_CBMC)
# define PRE(name, e)   __CPROVER_requires(e)
# define POST(name, e)  __CPROVER_ensures(e)
# define ASSIGNS(...)   __CPROVER_assigns(__VA_ARGS__)
# define FREES(...)     __CPROVER_frees(__VA_ARGS__)
# define RET            __CPROVER_return_value
# define OLD(e)         __CPROVER_old(e)
# define SPEC static inline
#elif defined(VERIF_NATIVE)
# include <stdio.h>
# define PRE(name, e)   if (!(e)) { printf("  precondition clause `%s' is false\n", #name); ++n_pre_bad; }
# define POST(name, e)  if (!(e)) { printf("  postcondition clause `%s' is FALSE on the real code\n", #name); ++n_post_bad; } else { printf("  postcondition clause `%s' holds\n", #name); }
# define ASSIGNS(...)
# define FREES(...)
# define SPEC static inline
#elif defined(VERIF_NAMES)
# define PRE(name, e)   @@PRE name@@
# define POST(name, e)  @@POST name@@
# define ASSIGNS(...)
# define SPEC static inline
#else
# error "define VERIF_CBMC or VERIF_NATIVE"
#endif
#endif
