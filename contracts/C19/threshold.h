/* C19 contracts (c): the deterministic watcher Threshold_Watcher<Weightwatch_Traits>.
 *
 * BOUNDED: arbitrary well-formed pending list of at most TW_N (= 3) thresholds, arbitrary weight.
 * Weights are 64-bit counters that may wrap: `threshold t is reached at weight w' means that w is at or
 * past t in the modular order,  reached(w, t) <=> (uint64)(w - t) < 2^63.   (Property C19: the watcher
 * "triggers at the first check after the accumulated weight reaches its threshold, and not otherwise".)
 * Precondition from the call sites: all pending thresholds and the weight lie within a window of
 * 2^62, so that the modular order is a total order on them.
 * Invariant tw_inv(): list well-formed, thresholds non-decreasing in that order,
 *                     check_function installed <=> list not empty.
 */
#ifndef VERIF_C19_THRESHOLD_H
#define VERIF_C19_THRESHOLD_H
#include "../common/dual.h"
#if defined(VERIF_CBMC)
#define DLO_T    struct class_2eParma_Polyhedra_Library_3a_3aImplementation_3a_3aDoubly_Linked_Object
#define PE_T     struct class_2eParma_Polyhedra_Library_3a_3aImplementation_3a_3aWatchdog_3a_3aPending_Element
#define HANDLER_T struct class_2eParma_Polyhedra_Library_3a_3aImplementation_3a_3aWatchdog_3a_3aHandler
#define S_init   _ZN23Parma_Polyhedra_Library17Threshold_WatcherINS_18Weightwatch_TraitsEE4initE
#define S_weight _ZN23Parma_Polyhedra_Library18Weightwatch_Traits6weightE
#define S_checkf _ZN23Parma_Polyhedra_Library18Weightwatch_Traits14check_functionE
#define TW_N 3
PE_T G_e[TW_N]; PE_T G_f[1];
HANDLER_T G_h[TW_N + 1]; void *G_vt[4]; uint8_t G_flag[TW_N + 1];
int G_fired[TW_N + 1]; int G_order[TW_N + 2]; int G_nfired;
uint64_t G_fire_w[TW_N + 1];
uint64_t G_d[TW_N];           /* entry thresholds */
uint64_t G_base;              /* a point not after any pending threshold or the weight (window origin) */
int G_n, G_m, G_k;
void ghost_act(HANDLER_T *h) {
  int id = (int)(h - G_h);
  if (id >= 0 && id <= TW_N) { G_fired[id]++; if (G_nfired < TW_N + 2) G_order[G_nfired] = id; G_fire_w[id] = S_weight; }
  G_nfired++;
}
#define A_SENT (&S_init.f0.f0.f0)
#define F_SENT (&S_init.f0.f1.f0)
#define PE_OF(p) ((PE_T *)(p))
SPEC int list_len(DLO_T *sent) { DLO_T *p = sent->f0; int n = 0; for (int i = 0; i < TW_N + 2; i++) { if (p == sent) return n; p = p->f0; n++; } return TW_N + 2; }
SPEC int list_links_ok(DLO_T *sent) { DLO_T *p = sent; for (int i = 0; i < TW_N + 2; i++) { if (p->f0 == 0 || p->f0->f1 != p) return 0; p = p->f0; if (p == sent) return 1; } return 0; }
SPEC int list_has(DLO_T *sent, DLO_T *x) { DLO_T *p = sent->f0; for (int i = 0; i < TW_N + 1; i++) { if (p == sent) return 0; if (p == x) return 1; p = p->f0; } return 0; }
#define WINDOW ((uint64_t)1 << 62)
SPEC uint64_t off(uint64_t v) { return v - G_base; }          /* position inside the window */
SPEC int in_window(uint64_t v) { return off(v) < WINDOW; }
SPEC int reached(uint64_t w, uint64_t t) { return (uint64_t)(w - t) < ((uint64_t)1 << 63); }
SPEC int active_sorted(void) {
  DLO_T *p = A_SENT->f0;
  for (int i = 0; i < TW_N + 1; i++) {
    if (p == A_SENT) return 1;
    if (!in_window(PE_OF(p)->f1)) return 0;
    if (p->f0 != A_SENT && off(PE_OF(p)->f1) > off(PE_OF(p->f0)->f1)) return 0;
    p = p->f0;
  }
  return 1;
}
SPEC int tw_inv(int maxlen) {
  int n;
  if (!list_links_ok(A_SENT) || !list_links_ok(F_SENT)) return 0;
  n = list_len(A_SENT);
  if (n > maxlen || list_len(F_SENT) > TW_N + 1) return 0;   /* every element of the harness may end up on the free list */
  if (!active_sorted() || !in_window(S_weight)) return 0;
  return 1;
}
SPEC int elem_kept(int i) { return list_has(A_SENT, &G_e[i].f0) && G_e[i].f1 == G_d[i] && G_e[i].f2 == &G_h[i] && G_e[i].f3 == &G_flag[i]; }
SPEC int others_kept(int except) { for (int i = 0; i < TW_N; i++) if (i < G_n && i != except && !elem_kept(i)) return 0; return 1; }
SPEC int nothing_fired(void) { if (G_nfired != 0) return 0; for (int i = 0; i <= TW_N; i++) if (G_fired[i] != 0 || G_flag[i] != 0) return 0; return 1; }
#define TW_FRAME __CPROVER_object_whole(&S_init), __CPROVER_object_whole(&S_checkf), __CPROVER_object_whole(G_e), __CPROVER_object_whole(G_f), \
  __CPROVER_object_whole(G_flag), __CPROVER_object_whole(G_fired), __CPROVER_object_whole(G_order), __CPROVER_object_whole(&G_nfired), __CPROVER_object_whole(G_fire_w)

/* the check function is the watcher's own check() exactly while thresholds are pending */
void FN_check(void);
SPEC int checkf_ok(void) { return list_len(A_SENT) > 0 ? (S_checkf == (void *)FN_check) : 1; }

DLO_T *FN_add_threshold(uint64_t threshold, HANDLER_T *handler, uint8_t *flag)
  PRE(inv, tw_inv(TW_N - 1)) PRE(window, in_window(threshold)) PRE(args, handler == &G_h[TW_N] && flag == &G_flag[TW_N])
  ASSIGNS(TW_FRAME)
  POST(inv, tw_inv(TW_N))
  POST(inserted, list_len(A_SENT) == G_n + 1 && list_has(A_SENT, RET) && PE_OF(RET)->f1 == threshold && PE_OF(RET)->f2 == &G_h[TW_N] && PE_OF(RET)->f3 == &G_flag[TW_N])
  POST(others_kept, others_kept(-1))
  POST(check_installed, S_checkf == (void *)FN_check)
  POST(nothing_fired, nothing_fired());

DLO_T *FN_remove_threshold(DLO_T *position)
  PRE(inv, tw_inv(TW_N)) PRE(nonempty, G_n >= 1 && G_k >= 0 && G_k < G_n && position == &G_e[G_k].f0) PRE(check_installed, S_checkf == (void *)FN_check)
  ASSIGNS(TW_FRAME)
  POST(inv, tw_inv(TW_N))
  POST(removed, list_len(A_SENT) == G_n - 1 && !list_has(A_SENT, &G_e[G_k].f0))
  POST(others_kept, others_kept(G_k))
  POST(check_function, G_n == 1 ? S_checkf == 0 : S_checkf == (void *)FN_check)     /* still watched while any threshold is pending */
  POST(nothing_fired, nothing_fired());

/* Threshold_Watcher::check(): exactly the handlers whose threshold has been reached act, once, in order */
SPEC int fired_exactly_the_reached(void) {
  int expect = 0;
  for (int i = 0; i < TW_N; i++) if (i < G_n) {
    if (reached(S_weight, G_d[i])) {
      if (G_fired[i] != 1 || G_flag[i] == 0 || G_order[expect] != i || list_has(A_SENT, &G_e[i].f0)) return 0;
      expect++;
    }
    else if (G_fired[i] != 0 || G_flag[i] != 0 || !elem_kept(i)) return 0;
  }
  return G_nfired == expect;
}
void FN_check(void)
  PRE(inv, tw_inv(TW_N)) PRE(nonempty, G_n >= 1) PRE(check_installed, S_checkf == (void *)FN_check)
  ASSIGNS(TW_FRAME)
  POST(inv, tw_inv(TW_N))
  POST(fired_exactly_the_reached, fired_exactly_the_reached())
  POST(check_function, list_len(A_SENT) == 0 ? S_checkf == 0 : S_checkf == (void *)FN_check);

void tw_build(int n, int m) {
  LL_global_ctors();
  for (int i = 0; i < 4; i++) G_vt[i] = (void *)ghost_act;
  for (int i = 0; i <= TW_N; i++) { G_h[i].f0 = (void **)&G_vt[0]; G_flag[i] = 0; G_fired[i] = 0; }
  G_nfired = 0; G_n = n; G_m = m;
  DLO_T *prev = A_SENT;
  for (int i = 0; i < TW_N; i++) if (i < n) {
    prev->f0 = &G_e[i].f0; G_e[i].f0.f1 = prev; G_e[i].f2 = &G_h[i]; G_e[i].f3 = &G_flag[i]; G_d[i] = G_e[i].f1;
    prev = &G_e[i].f0;
  }
  prev->f0 = A_SENT; A_SENT->f1 = prev;
  if (m == 1) { F_SENT->f0 = &G_f[0].f0; G_f[0].f0.f1 = F_SENT; G_f[0].f0.f0 = F_SENT; F_SENT->f1 = &G_f[0].f0; }
  else { F_SENT->f0 = F_SENT; F_SENT->f1 = F_SENT; }
  S_checkf = n > 0 ? (void *)FN_check : (void *)0;
}
#endif
#endif
