/* C19 contracts (a): deadlines are Time values; the abstract value of a Time is
 *     usec(t) = secs * 1e6 + microsecs          wf(t): secs >= 0 and 0 <= microsecs < 1e6
 * Every operation is specified against usec(): constructors build the stated
 * amount, += adds, -= subtracts saturating at zero, comparisons compare usec.
 * The weight comparison of the deterministic watcher is specified in the
 * modular order on 64-bit counters. */
#ifndef VERIF_C19_TIME_H
#define VERIF_C19_TIME_H
#include "../common/dual.h"
#define T_SECS(t) ((int64_t)(t)->f0)
#define T_USECS(t) ((int64_t)(t)->f1)
#define MAXSECS ((int64_t)1 << 60)      /* call sites: CPU seconds of one process; keeps secs + secs inside long */
SPEC int t_wf(const TIME_T *t) { return T_SECS(t) >= 0 && T_SECS(t) < MAXSECS && T_USECS(t) >= 0 && T_USECS(t) < USECS_PER_SEC_; }
/* usec() is never multiplied out (wide multiplications are hopeless for the SAT back end): for well-formed
   times the order on usec is the lexicographic order on (secs, microsecs), and sums / differences are stated
   in carry / borrow form -- equivalent to the usec equations because 0 <= microsecs < 1e6 on both sides. */
SPEC int cmp_t(int64_t s1, int64_t u1, int64_t s2, int64_t u2) { return s1 < s2 ? -1 : s1 > s2 ? 1 : u1 < u2 ? -1 : u1 > u2 ? 1 : 0; }
SPEC int t_cmp(const TIME_T *x, const TIME_T *y) { return cmp_t(T_SECS(x), T_USECS(x), T_SECS(y), T_USECS(y)); }
/* (rs, ru) == x + y */
SPEC int is_sum(int64_t rs, int64_t ru, int64_t xs, int64_t xu, int64_t ys, int64_t yu) {
  return xu + yu < 1000000 ? (rs == xs + ys && ru == xu + yu) : (rs == xs + ys + 1 && ru == xu + yu - 1000000);
}
/* (rs, ru) == max(0, x - y) */
SPEC int is_sat_diff(int64_t rs, int64_t ru, int64_t xs, int64_t xu, int64_t ys, int64_t yu) {
  if (cmp_t(xs, xu, ys, yu) <= 0) return rs == 0 && ru == 0;
  return xu >= yu ? (rs == xs - ys && ru == xu - yu) : (rs == xs - ys - 1 && ru == xu - yu + 1000000);
}
SPEC int wf2(int64_t s, int64_t u) { return s >= 0 && s < MAXSECS && u >= 0 && u < USECS_PER_SEC_; }

#define C_ctor_csecs_PRE(CS)            ((int64_t)(CS) >= 0 && (int64_t)(CS) < MAXSECS)
#define C_ctor_csecs_POSTS(T, CS)       POST(units, USECS_PER_SEC_ == 1000000 && CSECS_PER_SEC_ == 100) POST(wf, t_wf(T)) POST(value, T_USECS(T) % 10000 == 0 && T_SECS(T) <= (int64_t)(CS) / 100 && (T_SECS(T) * 100 + T_USECS(T) / 10000) == (int64_t)(CS))
#define C_ctor_s_us_PRE(S, US)          ((int64_t)(S) >= 0 && (int64_t)(S) < MAXSECS / 2 && (int64_t)(US) >= 0 && (int64_t)(US) < ((int64_t)1 << 22))   /* the call site (get_timer) passes tv_usec < 1e6 */
#define C_ctor_s_us_POSTS(T, S, US)     POST(wf, t_wf(T)) POST(value, (int64_t)(US) < 1000000 ? (T_SECS(T) == (int64_t)(S) && T_USECS(T) == (int64_t)(US)) : (T_USECS(T) == (int64_t)(US) % 1000000 && T_SECS(T) == (int64_t)(S) + (int64_t)(US) / 1000000))
/* X0S, X0U: entry value of *x;  RS, RU: the returned Time */
#define C_add_assign_POSTS(R, X, X0S, X0U, Y) POST(wf, t_wf(X)) POST(value, is_sum(T_SECS(X), T_USECS(X), X0S, X0U, T_SECS(Y), T_USECS(Y))) POST(returns_self, (R) == (X))
#define C_sub_assign_POSTS(R, X, X0S, X0U, Y) POST(wf, t_wf(X)) POST(value, is_sat_diff(T_SECS(X), T_USECS(X), X0S, X0U, T_SECS(Y), T_USECS(Y))) POST(returns_self, (R) == (X))
#define C_add_POSTS(RS, RU, X, Y)       POST(wf, wf2(RS, RU)) POST(value, is_sum(RS, RU, T_SECS(X), T_USECS(X), T_SECS(Y), T_USECS(Y)))
#define C_sub_POSTS(RS, RU, X, Y)       POST(wf, wf2(RS, RU)) POST(value, is_sat_diff(RS, RU, T_SECS(X), T_USECS(X), T_SECS(Y), T_USECS(Y)))
#define C_eq_POSTS(R, X, Y)             POST(value, ((R) != 0) == (t_cmp(X, Y) == 0))
#define C_ne_POSTS(R, X, Y)             POST(value, ((R) != 0) == (t_cmp(X, Y) != 0))
#define C_lt_POSTS(R, X, Y)             POST(value, ((R) != 0) == (t_cmp(X, Y) < 0))
#define C_le_POSTS(R, X, Y)             POST(value, ((R) != 0) == (t_cmp(X, Y) <= 0))
#define C_gt_POSTS(R, X, Y)             POST(value, ((R) != 0) == (t_cmp(X, Y) > 0))
#define C_ge_POSTS(R, X, Y)             POST(value, ((R) != 0) == (t_cmp(X, Y) >= 0))
#define C_wd_less_than_POSTS(R, X, Y)   POST(value, ((R) != 0) == (t_cmp(X, Y) < 0))
/* weights: b is ahead of a in the modular order on 64-bit counters.  Property C19: a watcher triggers at the
   first check after the weight REACHES its threshold, i.e. `threshold not yet reached' is the STRICT order:
   less_than(weight, threshold) <=> 0 < threshold - weight < 2^63 */
#define C_ww_less_than_POSTS(R, A, B)   POST(strict_modular_order, ((R) != 0) == ((uint64_t)((B) - (A)) != 0 && (uint64_t)((B) - (A)) < ((uint64_t)1 << 63)))

#if defined(VERIF_CBMC) && !defined(C19_TIME_SPEC_ONLY)
typedef struct { uint64_t f0, f1; } time_pair_t;
#define TWF2 PRE(wf_x, t_wf(x)) PRE(wf_y, t_wf(y))
#define TSUM PRE(no_overflow, T_SECS(x) + T_SECS(y) + 1 < MAXSECS)   /* call sites add CPU times of one process */
void FN_ctor_csecs(TIME_T *t, uint64_t cs) PRE(operand, C_ctor_csecs_PRE(cs)) ASSIGNS(*t) C_ctor_csecs_POSTS(t, cs);
void FN_ctor_s_us(TIME_T *t, uint64_t s, uint64_t us) PRE(operand, C_ctor_s_us_PRE(s, us)) ASSIGNS(*t) C_ctor_s_us_POSTS(t, s, us);
TIME_T *FN_add_assign(TIME_T *x, const TIME_T *y) TWF2 TSUM ASSIGNS(*x) C_add_assign_POSTS(RET, x, (int64_t)OLD(x->f0), (int64_t)OLD(x->f1), y);
TIME_T *FN_sub_assign(TIME_T *x, const TIME_T *y) TWF2 ASSIGNS(*x) C_sub_assign_POSTS(RET, x, (int64_t)OLD(x->f0), (int64_t)OLD(x->f1), y);
TIME_RET_T FN_add(const TIME_T *x, const TIME_T *y) TWF2 TSUM ASSIGNS() C_add_POSTS((int64_t)RET.f0, (int64_t)RET.f1, x, y);
TIME_RET_T FN_sub(const TIME_T *x, const TIME_T *y) TWF2 ASSIGNS() C_sub_POSTS((int64_t)RET.f0, (int64_t)RET.f1, x, y);
#define CMP(OP) _Bool FN_##OP(const TIME_T *x, const TIME_T *y) TWF2 ASSIGNS() C_##OP##_POSTS(RET, x, y);
CMP(eq) CMP(ne) CMP(lt) CMP(le) CMP(gt) CMP(ge) CMP(wd_less_than)
_Bool FN_ww_less_than(const uint64_t *a, const uint64_t *b) ASSIGNS() C_ww_less_than_POSTS(RET, *a, *b);
#endif
#endif
