/* C19 contracts (b): the bookkeeping of time watchdogs, on the real src/Watchdog.cc.
 *
 * BOUNDED: the state is an ARBITRARY well-formed pending list with at most WD_N
 * (= 3) active elements and at most one element on the free list -- arbitrary
 * deadlines, timer readings and list contents, not a state reached by a short
 * history -- and one operation is performed on it.
 *
 * Abstract model.  CPU time is virtual: `now' is the time consumed since the last
 * fresh start.  The kernel's one-shot interval timer is the ghost pair
 * (G_rem_s, G_rem_us): what getitimer() reports, i.e. the time left until the
 * signal.  The library keeps time_so_far and last_time_requested with
 *        now = time_so_far + (last_time_requested - remaining).
 * Representation invariant wd_inv():
 *   - both lists are well-formed circular doubly linked lists (bounded length),
 *   - the active list is sorted by deadline, every deadline is a well-formed Time,
 *   - alarm_clock_running  <=>  the active list is not empty,
 *   - running => time_so_far + last_time_requested == deadline(front), last > 0:
 *       the armed timer expires exactly at the earliest pending deadline
 *       ("never early", and no later than the deadline).
 * Handlers are virtual objects; the harness supplies handlers whose act()
 * records (who, in which order, at which virtual time) in ghost state.
 */
#ifndef VERIF_C19_WATCHDOG_H
#define VERIF_C19_WATCHDOG_H
#include "../common/dual.h"
#if defined(VERIF_CBMC)
#define TIME_T   struct class_2eParma_Polyhedra_Library_3a_3aImplementation_3a_3aWatchdog_3a_3aTime
#define DLO_T    struct class_2eParma_Polyhedra_Library_3a_3aImplementation_3a_3aDoubly_Linked_Object
#define PE_T     struct class_2eParma_Polyhedra_Library_3a_3aImplementation_3a_3aWatchdog_3a_3aPending_Element
#define HANDLER_T struct class_2eParma_Polyhedra_Library_3a_3aImplementation_3a_3aWatchdog_3a_3aHandler
#define S_time_so_far   _ZN23Parma_Polyhedra_Library8Watchdog11time_so_farE
#define S_last_req      _ZN23Parma_Polyhedra_Library8Watchdog19last_time_requestedE
#define S_pending       _ZN23Parma_Polyhedra_Library8Watchdog7pendingE
#define S_running       _ZN23Parma_Polyhedra_Library8Watchdog19alarm_clock_runningE
#define S_in_critical   _ZN23Parma_Polyhedra_Library8Watchdog19in_critical_sectionE
#define S_signal_once   _ZN23Parma_Polyhedra_Library8Watchdog11signal_onceE
#define S_timer_status  _ZN23Parma_Polyhedra_Library8Watchdog20current_timer_statusE
#define S_resched       _ZN23Parma_Polyhedra_Library8Watchdog15reschedule_timeE
#define USECS_PER_SEC_ 1000000
#define C19_TIME_SPEC_ONLY 1
#include "time.h"

#ifndef WD_N
#define WD_N 3
#endif
/* entry-state magnitudes leave head-room so that now + delay stays a well-formed Time */
#define SMALLSECS ((int64_t)1 << 58)
SPEC int t_small(const TIME_T *t) { return t_wf(t) && T_SECS(t) < SMALLSECS; }
/* ---- ghost state ---- */
PE_T G_e[WD_N];                /* the active elements of the entry state (harness-built) */
PE_T G_f[1];                   /* the free-list element of the entry state */
HANDLER_T G_h[WD_N + 1];       /* handler objects: G_h[i] belongs to G_e[i]; G_h[WD_N] is the new one */
void *G_vt[4];                 /* their vtable */
uint8_t G_flag[WD_N + 1];      /* expired flags */
int G_fired[WD_N + 1];         /* how many times handler i acted */
int G_order[WD_N + 2];         /* order of the acts */
int G_nfired;
int64_t G_fire_s[WD_N + 1], G_fire_us[WD_N + 1];   /* time_so_far when handler i acted */
uint64_t G_rem_s, G_rem_us;    /* what getitimer() reports */
int G_set_calls; uint64_t G_set_s, G_set_us;        /* calls of setitimer() and the last value armed */
int G_n, G_m;                  /* entry lengths of active / free list */
int64_t G_now_s, G_now_us;     /* virtual time at entry */
int G_k;                       /* index of the element an operation is applied to */

void ghost_act(HANDLER_T *h) {
  int id = (int)(h - G_h);
  if (id >= 0 && id <= WD_N) {
    G_fired[id]++;
    if (G_nfired < WD_N + 2) G_order[G_nfired] = id;
    G_fire_s[id] = (int64_t)S_time_so_far.f0; G_fire_us[id] = (int64_t)S_time_so_far.f1;
  }
  G_nfired++;
}

/* ---- abstract view of the lists ---- */
#define A_SENT (&S_pending.f0.f0)
#define F_SENT (&S_pending.f1.f0)
/* length of a circular list (WD_N + 2 = "too long / not closed") */
SPEC int list_len(DLO_T *sent) {
  DLO_T *p = sent->f0; int n = 0;
  for (int i = 0; i < WD_N + 2; i++) { if (p == sent) return n; p = p->f0; n++; }
  return WD_N + 2;
}
SPEC DLO_T *list_at(DLO_T *sent, int k) { DLO_T *p = sent->f0; for (int i = 0; i < WD_N + 1; i++) { if (i == k) return p; p = p->f0; } return p; }
SPEC int list_links_ok(DLO_T *sent) {
  DLO_T *p = sent;
  for (int i = 0; i < WD_N + 2; i++) { if (p->f0 == 0 || p->f0->f1 != p) return 0; p = p->f0; if (p == sent) return 1; }
  return 0;
}
SPEC int list_has(DLO_T *sent, DLO_T *x) { DLO_T *p = sent->f0; for (int i = 0; i < WD_N + 1; i++) { if (p == sent) return 0; if (p == x) return 1; p = p->f0; } return 0; }
#define PE_OF(p) ((PE_T *)(p))
SPEC int active_sorted(int small) {
  DLO_T *p = A_SENT->f0;
  for (int i = 0; i < WD_N + 1; i++) {
    if (p == A_SENT) return 1;
    if (!(small ? t_small(&PE_OF(p)->f1) : t_wf(&PE_OF(p)->f1))) return 0;
    if (p->f0 != A_SENT && t_cmp(&PE_OF(p)->f1, &PE_OF(p->f0)->f1) > 0) return 0;
    p = p->f0;
  }
  return 1;
}
SPEC int wd_inv2(int maxlen, int small) {
  int n;
  if (!list_links_ok(A_SENT) || !list_links_ok(F_SENT)) return 0;
  n = list_len(A_SENT);
  if (n > maxlen || list_len(F_SENT) > WD_N + 1) return 0;   /* every element of the harness may end up on the free list */
  if (!active_sorted(small)) return 0;
  if ((S_running != 0) != (n > 0)) return 0;
  if (n > 0) {
    PE_T *front = PE_OF(A_SENT->f0);
    if (!t_wf(&S_time_so_far) || !t_wf(&S_last_req)) return 0;
    if (T_SECS(&S_last_req) == 0 && T_USECS(&S_last_req) == 0) return 0;
    if (!is_sum(T_SECS(&front->f1), T_USECS(&front->f1), T_SECS(&S_time_so_far), T_USECS(&S_time_so_far), T_SECS(&S_last_req), T_USECS(&S_last_req))) return 0;
  }
  return 1;
}
SPEC int wd_inv(int maxlen) { return wd_inv2(maxlen, 0); }
SPEC int wd_inv_entry(int maxlen) { return wd_inv2(maxlen, 1); }
/* the timer reading is consistent: 0 <= remaining <= last_time_requested (EXPIRED: remaining == 0) */
SPEC int rem_ok(int expired) {
  if (!wf2((int64_t)G_rem_s, (int64_t)G_rem_us)) return 0;
  if (expired) return G_rem_s == 0 && G_rem_us == 0;
  if (G_rem_s == 0 && G_rem_us == 0) return 0;      /* still running: the signal has not been delivered */
  return cmp_t((int64_t)G_rem_s, (int64_t)G_rem_us, T_SECS(&S_last_req), T_USECS(&S_last_req)) <= 0;
}
/* virtual time: now = time_so_far + (last - remaining), with `remaining' = last if the timer was just re-armed */
SPEC int now_is(int64_t ns, int64_t nus, int64_t rs, int64_t rus) {
  /* exists e = last - rem (saturating, rem <= last so exact):  (ns,nus) = time_so_far + e */
  int64_t es, eus;
  if (T_USECS(&S_last_req) >= rus) { es = T_SECS(&S_last_req) - rs; eus = T_USECS(&S_last_req) - rus; }
  else { es = T_SECS(&S_last_req) - rs - 1; eus = T_USECS(&S_last_req) - rus + 1000000; }
  return is_sum(ns, nus, T_SECS(&S_time_so_far), T_USECS(&S_time_so_far), es, eus);
}
/* after the call: the remaining time is what the harness chose, unless the timer was re-armed */
SPEC int now_preserved(void) {
  if (!S_running) return 1;
  if (G_set_calls > 0) return G_set_s == S_last_req.f0 && G_set_us == S_last_req.f1 && now_is(G_now_s, G_now_us, (int64_t)S_last_req.f0, (int64_t)S_last_req.f1);
  return now_is(G_now_s, G_now_us, (int64_t)G_rem_s, (int64_t)G_rem_us);
}
/* entry element i is untouched and still (not) on the active list */
SPEC int elem_kept(int i, int64_t ds, int64_t dus) {
  return list_has(A_SENT, &G_e[i].f0) && T_SECS(&G_e[i].f1) == ds && T_USECS(&G_e[i].f1) == dus && G_e[i].f2 == &G_h[i] && G_e[i].f3 == &G_flag[i];
}
int64_t G_d_s[WD_N], G_d_us[WD_N];    /* entry deadlines (ghost copies) */
SPEC int others_kept(int except) {
  for (int i = 0; i < WD_N; i++) if (i < G_n && i != except && !elem_kept(i, G_d_s[i], G_d_us[i])) return 0;
  return 1;
}
SPEC int nothing_fired(void) { if (G_nfired != 0) return 0; for (int i = 0; i <= WD_N; i++) if (G_fired[i] != 0 || G_flag[i] != 0) return 0; return 1; }

#define WD_FRAME __CPROVER_object_whole(&S_time_so_far), __CPROVER_object_whole(&S_last_req), __CPROVER_object_whole(&S_pending), \
  __CPROVER_object_whole(&S_running), __CPROVER_object_whole(&S_signal_once), __CPROVER_object_whole(&S_timer_status), \
  __CPROVER_object_whole(G_e), __CPROVER_object_whole(G_f), __CPROVER_object_whole(G_flag), __CPROVER_object_whole(G_fired), \
  __CPROVER_object_whole(G_order), __CPROVER_object_whole(&G_nfired), __CPROVER_object_whole(G_fire_s), __CPROVER_object_whole(G_fire_us), \
  __CPROVER_object_whole(&G_set_calls), __CPROVER_object_whole(&G_set_s), __CPROVER_object_whole(&G_set_us)

/* ---- Watchdog::new_watchdog_event(csecs, handler, expired_flag) ---- */
SPEC int new_event_post(DLO_T *pos, uint64_t csecs) {
  PE_T *e = PE_OF(pos);
  int64_t ds = (int64_t)csecs / 100, dus = ((int64_t)csecs % 100) * 10000;   /* the delay as a Time */
  if (!list_has(A_SENT, pos)) return 0;
  if (e->f2 != &G_h[WD_N] || e->f3 != &G_flag[WD_N]) return 0;
  /* deadline = (virtual now at entry) + delay: never before `delay' of timer time has elapsed */
  return is_sum(T_SECS(&e->f1), T_USECS(&e->f1), G_now_s, G_now_us, ds, dus);
}
DLO_T *FN_new_watchdog_event(uint64_t csecs, HANDLER_T *handler, uint8_t *expired_flag)
  PRE(inv, wd_inv_entry(WD_N - 1)) PRE(delay, (int64_t)csecs > 0 && (int64_t)csecs < ((int64_t)1 << 31))   /* delays up to 248 days */
  PRE(timer, !S_running ? (G_now_s == 0 && G_now_us == 0) : G_now_s >= SMALLSECS ? 0 : (rem_ok(0) && now_is(G_now_s, G_now_us, (int64_t)G_rem_s, (int64_t)G_rem_us)))
  PRE(args, handler == &G_h[WD_N] && expired_flag == &G_flag[WD_N])
  ASSIGNS(WD_FRAME)
  POST(inv, wd_inv(WD_N))
  POST(inserted, list_len(A_SENT) == G_n + 1 && new_event_post(RET, csecs))
  POST(others_kept, others_kept(-1))
  POST(running, S_running != 0)
  POST(now_preserved, now_preserved())
  POST(nothing_fired, nothing_fired());

/* ---- Watchdog::remove_watchdog_event(position) ---- */
void FN_remove_watchdog_event(struct class_2eParma_Polyhedra_Library_3a_3aWatchdog *self, DLO_T *position)
  PRE(inv, wd_inv_entry(WD_N)) PRE(nonempty, G_n >= 1 && G_k >= 0 && G_k < G_n && position == &G_e[G_k].f0)
  PRE(timer, rem_ok(0) && now_is(G_now_s, G_now_us, (int64_t)G_rem_s, (int64_t)G_rem_us))
  ASSIGNS(WD_FRAME)
  POST(inv, wd_inv(WD_N))
  POST(removed, list_len(A_SENT) == G_n - 1 && !list_has(A_SENT, &G_e[G_k].f0))   /* never after death: the handler walks only the active list */
  POST(others_kept, others_kept(G_k))
  POST(now_preserved, now_preserved())
  POST(stopped_when_empty, G_n > 1 || (S_running == 0 && G_set_calls > 0 && G_set_s == 0 && G_set_us == 0))
  POST(nothing_fired, nothing_fired());

/* ---- Watchdog::handle_timeout(signum), delivered when the armed timer expires, outside the critical section ---- */
SPEC int due(int i) { return cmp_t(G_d_s[i], G_d_us[i], G_now_s, G_now_us) <= 0; }
SPEC int fired_exactly_the_due(void) {
  int expect = 0;
  for (int i = 0; i < WD_N; i++) if (i < G_n) {
    if (due(i)) {
      if (G_fired[i] != 1 || G_flag[i] == 0) return 0;                    /* once, flag set */
      if (G_order[expect] != i) return 0;                                   /* in deadline (= list) order */
      if (cmp_t(G_fire_s[i], G_fire_us[i], G_d_s[i], G_d_us[i]) < 0) return 0;   /* never early */
      if (list_has(A_SENT, &G_e[i].f0)) return 0;                           /* and removed */
      expect++;
    }
    else if (G_fired[i] != 0 || G_flag[i] != 0 || !elem_kept(i, G_d_s[i], G_d_us[i])) return 0;
  }
  return G_nfired == expect && G_fired[WD_N] == 0;
}
void FN_handle_timeout(uint32_t signum)
  PRE(inv, wd_inv_entry(WD_N)) PRE(running, S_running != 0 && G_n >= 1) PRE(not_critical, S_in_critical == 0)
  PRE(expired, rem_ok(1) && now_is(G_now_s, G_now_us, 0, 0))
  ASSIGNS(WD_FRAME)
  POST(inv, wd_inv(WD_N))
  POST(fired_exactly_the_due, fired_exactly_the_due())
  POST(clock, S_running == 0 || (cmp_t(T_SECS(&S_time_so_far), T_USECS(&S_time_so_far), G_now_s, G_now_us) == 0 && G_set_calls > 0 && G_set_s == S_last_req.f0 && G_set_us == S_last_req.f1));

/* ---- the same signal inside the critical section: nothing fires, the handler defers itself ---- */
#ifdef CONTRACT_DEFERRED
void FN_handle_timeout_deferred(uint32_t signum);
#endif

/* ================================================================== harness support */
/* builds an arbitrary entry state with n active and m free elements */
void wd_build(int n, int m) {
  LL_global_ctors();
  for (int i = 0; i < 4; i++) G_vt[i] = (void *)ghost_act;   /* every virtual slot: act() is the only virtual function these operations call */
  for (int i = 0; i <= WD_N; i++) { G_h[i].f0 = (void **)&G_vt[0]; G_flag[i] = 0; G_fired[i] = 0; }
  G_nfired = 0; G_set_calls = 0; G_n = n; G_m = m;
  __CPROVER_assume(n >= 0 && n <= WD_N && m >= 0 && m <= 1);
  DLO_T *prev = A_SENT;
  for (int i = 0; i < WD_N; i++) if (i < n) {
    prev->f0 = &G_e[i].f0; G_e[i].f0.f1 = prev; G_e[i].f2 = &G_h[i]; G_e[i].f3 = &G_flag[i];
    G_d_s[i] = (int64_t)G_e[i].f1.f0; G_d_us[i] = (int64_t)G_e[i].f1.f1;
    prev = &G_e[i].f0;
  }
  prev->f0 = A_SENT; A_SENT->f1 = prev;
  if (m == 1) { F_SENT->f0 = &G_f[0].f0; G_f[0].f0.f1 = F_SENT; G_f[0].f0.f0 = F_SENT; F_SENT->f1 = &G_f[0].f0; }
  else { F_SENT->f0 = F_SENT; F_SENT->f1 = F_SENT; }
  S_running = (n > 0);
}
#endif
#endif
