/* C16 contracts (sparse half): CO_Tree, the complete-ordered-tree map behind Sparse_Row, on the real
 * src/CO_Tree.cc.
 *
 * BOUNDED in capacity: the entry state is an ARBITRARY well-formed tree with reserved_size RS
 * (one task per RS in {0, 3, 7}; 15 in the thorough tier) -- every key set, every density, every
 * placement of the unused slots that the library's own invariant (structure_OK() / OK(), extracted and
 * CALLED in the clauses) admits -- and one operation is applied.  Loops are unwound to that capacity
 * (the result may have grown to 2*RS+1) with unwinding assertions.
 *
 * Abstract view: the finite map  { indexes[i] -> data[i] | 1 <= i <= reserved_size, indexes[i] != unused }.
 * Coefficients are GMP integers; the tree never computes with them, it copies / moves / swaps them.
 * stubs/c16_gmp.c models an mpz value by its three-word representation, which those operations carry
 * around unchanged, so "the coefficient stored under key k" is that representation.
 * Whole-view postconditions are stated with a GHOST KEY G_k (arbitrary): lookup'(G_k) is what the
 * operation's definition says, for the key operated on AND for every other key.
 */
#ifndef VERIF_C16_COTREE_H
#define VERIF_C16_COTREE_H
#include "../common/dual.h"
#if defined(VERIF_CBMC)
#define TREE_T  struct class_2eParma_Polyhedra_Library_3a_3aCO_Tree
#define ITER_T  struct class_2eParma_Polyhedra_Library_3a_3aCO_Tree_3a_3aiterator
#define MPZ_T   struct class_2e__gmp_expr
#define UNUSED  (~(uint64_t)0)
#define T_IDX(t)  ((t)->f3)
#define T_DATA(t) ((t)->f5)
#define T_RS(t)   ((t)->f6)
#define T_SIZE(t) ((t)->f7)
#ifndef CAP
# define CAP 15            /* largest capacity any loop of the spec has to look at */
#endif
uint64_t G_k;              /* ghost key */
typedef struct { int present; uint32_t a, s; uint64_t *d; } coef_t;
SPEC coef_t coef_of(const MPZ_T *m) { coef_t c; c.present = 1; c.a = m->f0.a[0].f0; c.s = m->f0.a[0].f1; c.d = m->f0.a[0].f2; return c; }
SPEC int coef_eq(coef_t x, coef_t y) { return x.present == y.present && (!x.present || (x.a == y.a && x.s == y.s && x.d == y.d)); }
SPEC coef_t lookup(const TREE_T *t, uint64_t k) {
  coef_t none; none.present = 0; none.a = 0; none.s = 0; none.d = 0;
  for (uint64_t i = 1; i <= CAP; i++) if (i <= T_RS(t) && T_IDX(t)[i] == k) return coef_of(&T_DATA(t)[i]);
  return none;
}
SPEC int count_used(const TREE_T *t) { int n = 0; for (uint64_t i = 1; i <= CAP; i++) if (i <= T_RS(t) && T_IDX(t)[i] != UNUSED) n++; return n; }
coef_t G_old, G_new_data; int G_old_size; int G_key_was_present;   /* snapshots taken by the harness before the call */

_Bool FN_OK(const TREE_T *t);
_Bool FN_structure_OK(const TREE_T *t);

/* ---- representation invariant ----
   The library's OK() checks sizes, ordering and densities; the algorithms additionally rely on the used
   nodes being CONNECTED in the complete-tree layout (a used node's parent is used; go_down_searching_key()
   and insert_precise() stop at the first unused node).  tree_wf() states both; the lemma task `OK_lemma'
   proves tree_wf(t) => OK(t) on the real OK(), and every operation is required to re-establish tree_wf(). */
SPEC uint64_t lowbit(uint64_t i) { return i & (~i + 1); }
SPEC uint64_t parent_of(uint64_t i) { uint64_t b = lowbit(i); return lowbit(i - b) == 2 * b ? i - b : i + b; }
SPEC int ratio_gt(uint64_t n, uint64_t d, uint64_t pct) { return 100 * n > pct * d; }      /* is_greater_than_ratio */
SPEC int ratio_lt(uint64_t n, uint64_t d, uint64_t pct) { return 100 * n < pct * d; }      /* is_less_than_ratio */
SPEC int depth_of(uint64_t rs) { return rs == 3 ? 2 : rs == 7 ? 3 : rs == 15 ? 4 : rs == 31 ? 5 : 0; }
SPEC int tree_wf(const TREE_T *t) {
  uint64_t rs = T_RS(t), n = 0, last = 0; int have_last = 0;
  if (rs == 0) return T_IDX(t) == 0 && T_DATA(t) == 0 && t->f2 == 0 && T_SIZE(t) == 0
                      && t->f0.f0 == (uint64_t *)0 + 1 && t->f1.f0 == (uint64_t *)0 + 1;
  if (depth_of(rs) == 0 || t->f2 != (uint32_t)depth_of(rs) || T_IDX(t) == 0 || T_DATA(t) == 0) return 0;
  if (T_IDX(t)[0] != 0 || T_IDX(t)[rs + 1] != 0) return 0;                       /* end markers for the iterators */
  for (uint64_t i = 1; i <= CAP; i++) if (i <= rs && T_IDX(t)[i] != UNUSED) {
    if (have_last && T_IDX(t)[i] <= last) return 0;                                /* strictly increasing in slot order */
    last = T_IDX(t)[i]; have_last = 1; n++;
    if (i != (rs + 1) / 2 && T_IDX(t)[parent_of(i)] == UNUSED) return 0;           /* connected: the parent is used */
  }
  if (n != T_SIZE(t)) return 0;
  if (ratio_gt(n, rs, 91) && rs != 3) return 0;                                    /* densities, as in OK() */
  if (ratio_lt(n, rs, 38) && !ratio_gt(n, rs / 2, 91)) return 0;
  if (t->f0.f0 != &T_IDX(t)[rs + 1] || t->f0.f1 != &T_DATA(t)[rs + 1]) return 0;   /* cached end iterators */
  if (t->f1.f0 != &T_IDX(t)[rs + 1] || t->f1.f1 != &T_DATA(t)[rs + 1]) return 0;
  return 1;
}
_Bool FN_OK(const TREE_T *t) PRE(wf, tree_wf(t) && T_RS(t) == RS) ASSIGNS() POST(lemma_wf_implies_OK, RET != 0);

/* ---- searching: pure functions of the index array ---- */
SPEC int used_at(const TREE_T *t, uint64_t i) { return i >= 1 && i <= T_RS(t) && T_IDX(t)[i] != UNUSED; }
/* no used key lies strictly between idx[r] and key, among positions [lo, hi]; p is a ghost position */
SPEC int neighbour(const TREE_T *t, uint64_t r, uint64_t key, uint64_t p) {
  uint64_t v = T_IDX(t)[p], c = T_IDX(t)[r];
  return v == UNUSED || !((c < v && v < key) || (key < v && v < c));
}
SPEC int found_or_adjacent(const TREE_T *t, uint64_t r, uint64_t key) {
  for (uint64_t p = 1; p <= CAP; p++) if (p <= T_RS(t)) { if (T_IDX(t)[p] == key && r != p) return 0; if (!neighbour(t, r, key, p)) return 0; }
  return 1;
}
uint64_t G_p, G_q;   /* ghost positions */
uint64_t G_max_key; TREE_T G_tree;
uint64_t FN_bisect_in(const TREE_T *t, uint64_t first, uint64_t last, uint64_t key)
  PRE(wf, tree_wf(t) && T_RS(t) == RS)
  PRE(range, first != 0 && last <= T_RS(t) && first <= last && used_at(t, first) && used_at(t, last) && key != UNUSED)
  ASSIGNS()
  POST(in_range, RET >= first && RET <= last && used_at(t, RET))
  POST(finds_key, !(G_p >= first && G_p <= last && T_IDX(t)[G_p] == key) || RET == G_p)
  POST(else_neighbour, !(G_p >= first && G_p <= last) || neighbour(t, RET, key, G_p));
uint64_t FN_bisect_near(const TREE_T *t, uint64_t hint, uint64_t key)
  PRE(wf, tree_wf(t) && T_RS(t) == RS && T_SIZE(t) > 0)
  PRE(hint, used_at(t, hint) && key != UNUSED)                 /* ANY used position is a legal hint, however stale */
  ASSIGNS()
  POST(in_range, used_at(t, RET))
  POST(finds_key, !(G_p >= 1 && G_p <= T_RS(t) && T_IDX(t)[G_p] == key) || RET == G_p)
  POST(else_neighbour, !(G_p >= 1 && G_p <= T_RS(t)) || neighbour(t, RET, key, G_p))
  POST(for_every_position, found_or_adjacent(t, RET, key));     /* the same two facts for all positions at once: what callers use */

/* ---- insert(key, data): map update ---- */
#define G_stack _ZZN23Parma_Polyhedra_Library7CO_Tree32redistribute_elements_in_subtreeEmmmmRK10__gmp_exprIA1_12__mpz_structS3_EbE5stack
#define TREE_FRAME(t) __CPROVER_object_whole(t), __CPROVER_object_whole(G_idx), __CPROVER_object_whole(G_dat), \
  __CPROVER_object_whole(POOL_IDX), __CPROVER_object_whole(POOL_DAT), __CPROVER_object_whole(&POOL_IDX_used), __CPROVER_object_whole(&POOL_DAT_used)
#define GA_N (RS ? RS : 1)
uint64_t G_idx[GA_N + 2]; MPZ_T G_dat[GA_N + 1];     /* the entry arrays (harness objects) */
#ifndef POOL_N
# define POOL_N 15
#endif
uint64_t POOL_IDX[POOL_N + 2]; MPZ_T POOL_DAT[POOL_N + 1]; int POOL_IDX_used, POOL_DAT_used;   /* see stubs/c16_gmp.c */
void FN_insert_kd(ITER_T *result, TREE_T *t, uint64_t key, const MPZ_T *data)
  PRE(wf, tree_wf(t) && T_RS(t) == RS && (RS == 0 || (T_IDX(t) == G_idx && T_DATA(t) == G_dat)))
  PRE(key, key != UNUSED && G_k != UNUSED)
  ASSIGNS(TREE_FRAME(t), *result)
  POST(wf, tree_wf(t))
  POST(map_updated, coef_eq(lookup(t, G_k), G_k == key ? G_new_data : G_old))
  POST(size, (int)T_SIZE(t) == G_old_size + (G_key_was_present ? 0 : 1) && count_used(t) == (int)T_SIZE(t))
  POST(result_points_to_key, *result->f0 == key && coef_eq(coef_of(result->f1), G_new_data));

/* ---- insert(key): the key becomes present; a new key maps to zero (any coefficient copy of Coefficient_zero()) ---- */
void FN_insert_k(ITER_T *result, TREE_T *t, uint64_t key)
  PRE(wf, tree_wf(t) && T_RS(t) == RS && (RS == 0 || (T_IDX(t) == G_idx && T_DATA(t) == G_dat)))
  PRE(key, key != UNUSED && G_k != UNUSED)
  ASSIGNS(TREE_FRAME(t), *result)
  POST(wf, tree_wf(t))
  POST(others_kept, G_k == key || coef_eq(lookup(t, G_k), G_old))
  POST(key_present, lookup(t, key).present && (!G_key_was_present || G_k != key || coef_eq(lookup(t, G_k), G_old)))
  POST(size, (int)T_SIZE(t) == G_old_size + (G_key_was_present ? 0 : 1) && count_used(t) == (int)T_SIZE(t))
  POST(result_points_to_key, *result->f0 == key);

/* ---- erase(key) ---- */
void FN_erase_k(ITER_T *result, TREE_T *t, uint64_t key)
  PRE(wf, tree_wf(t) && T_RS(t) == RS && (RS == 0 || (T_IDX(t) == G_idx && T_DATA(t) == G_dat)))
  PRE(key, key != UNUSED && G_k != UNUSED)
  ASSIGNS(TREE_FRAME(t), *result)
  POST(wf, tree_wf(t))
  POST(map_updated, G_k == key ? !lookup(t, G_k).present : coef_eq(lookup(t, G_k), G_old))
  POST(size, (int)T_SIZE(t) == G_old_size - (G_key_was_present ? 1 : 0) && count_used(t) == (int)T_SIZE(t));

/* structure without the density clauses (what holds between the steps of an insertion / erasure) */
SPEC int tree_wf_nd(const TREE_T *t) {
  uint64_t rs = T_RS(t), n = 0, last = 0; int have_last = 0;
  if (rs == 0) return T_IDX(t) == 0 && T_DATA(t) == 0 && t->f2 == 0 && T_SIZE(t) == 0
                      && t->f0.f0 == (uint64_t *)0 + 1 && t->f1.f0 == (uint64_t *)0 + 1;
  if (depth_of(rs) == 0 || t->f2 != (uint32_t)depth_of(rs) || T_IDX(t) == 0 || T_DATA(t) == 0) return 0;
  if (T_IDX(t)[0] != 0 || T_IDX(t)[rs + 1] != 0) return 0;
  for (uint64_t i = 1; i <= CAP; i++) if (i <= rs && T_IDX(t)[i] != UNUSED) {
    if (have_last && T_IDX(t)[i] <= last) return 0;
    last = T_IDX(t)[i]; have_last = 1; n++;
    if (i != (rs + 1) / 2 && T_IDX(t)[parent_of(i)] == UNUSED) return 0;
  }
  if (n != T_SIZE(t)) return 0;
  if (t->f0.f0 != &T_IDX(t)[rs + 1] || t->f0.f1 != &T_DATA(t)[rs + 1]) return 0;
  if (t->f1.f0 != &T_IDX(t)[rs + 1] || t->f1.f1 != &T_DATA(t)[rs + 1]) return 0;
  return 1;
}
#define ENTRY_ARRAYS(t) (RS == 0 || (T_IDX(t) == G_idx && T_DATA(t) == G_dat))
/* ---- rebuild_bigger_tree(): same map, capacity 2*rs+1 (3 from the empty tree) ---- */
void FN_rebuild_bigger_tree(TREE_T *t)
  PRE(wf, tree_wf_nd(t) && T_RS(t) == RS && ENTRY_ARRAYS(t) && G_k != UNUSED)
  ASSIGNS(TREE_FRAME(t))
  POST(wf, tree_wf_nd(t))
  POST(capacity, T_RS(t) == (RS == 0 ? 3 : 2 * RS + 1))
  POST(same_map, coef_eq(lookup(t, G_k), G_old) && (int)T_SIZE(t) == G_old_size);

/* ---- increase_keys_from(key, n): every key >= `key' is shifted up by n ---- */
void FN_increase_keys_from(TREE_T *t, uint64_t key, uint64_t n)
  PRE(wf, tree_wf(t) && T_RS(t) == RS && ENTRY_ARRAYS(t))
  PRE(no_wrap, key != UNUSED && G_k != UNUSED && G_k < ((uint64_t)1 << 62) && n < ((uint64_t)1 << 62) && (T_SIZE(t) == 0 || G_max_key < ((uint64_t)1 << 62)))
  ASSIGNS(TREE_FRAME(t))
  POST(wf, tree_wf(t))
  POST(shifted, G_k < key ? coef_eq(lookup(t, G_k), G_old) : coef_eq(lookup(t, G_k + n), G_old))
  POST(gap, !(G_k >= key && G_k < key + n) || !lookup(t, G_k).present)
  POST(size, (int)T_SIZE(t) == G_old_size);

/* ---- the forward iterator steps to the next used slot (in-order successor) ---- */
ITER_T *FN_iter_inc(ITER_T *it)
  PRE(wf, tree_wf(&G_tree) && T_RS(&G_tree) == RS && RS != 0 && T_IDX(&G_tree) == G_idx && T_DATA(&G_tree) == G_dat)
  PRE(at_used, G_p >= 1 && G_p <= RS && G_idx[G_p] != UNUSED && it->f0 == &G_idx[G_p] && it->f1 == &G_dat[G_p])
  ASSIGNS(*it)
  POST(moved_right, it->f0 > &G_idx[G_p] && it->f0 <= &G_idx[RS + 1] && (it->f1 - G_dat) == (it->f0 - G_idx))
  POST(lands_on_used_or_end, it->f0 == &G_idx[RS + 1] || *it->f0 != UNUSED)
  POST(skips_only_unused, !(G_q > G_p && &G_idx[G_q] < it->f0) || G_idx[G_q] == UNUSED)
  POST(returns_self, RET == it);

/* ---- rebalance(itr, key, value), insertion mode: itr is the used LEAF next to which `key' belongs; size_ has
   already been incremented by the caller.  The function places (key, value) and redistributes the elements of
   the smallest enclosing subtree with acceptable density.  Hoare-style over the ghost key:
   { lookup(G_k) = G_old }  rebalance  { lookup(G_k) = (G_k == key ? value : G_old) } ---- */
#define TITER_T struct class_2eParma_Polyhedra_Library_3a_3aCO_Tree_3a_3atree_iterator
SPEC int count_used_rs(const TREE_T *t) { int n = 0; for (uint64_t i = 1; i <= CAP; i++) if (i <= T_RS(t) && T_IDX(t)[i] != UNUSED) n++; return n; }
SPEC int tree_shape(const TREE_T *t, int pending) {       /* tree_wf_nd with size_ == count + pending */
  uint64_t rs = T_RS(t), n = 0, last = 0; int have_last = 0;
  if (depth_of(rs) == 0 || t->f2 != (uint32_t)depth_of(rs) || T_IDX(t) == 0 || T_DATA(t) == 0) return 0;
  if (T_IDX(t)[0] != 0 || T_IDX(t)[rs + 1] != 0) return 0;
  for (uint64_t i = 1; i <= CAP; i++) if (i <= rs && T_IDX(t)[i] != UNUSED) {
    if (have_last && T_IDX(t)[i] <= last) return 0;
    last = T_IDX(t)[i]; have_last = 1; n++;
    if (i != (rs + 1) / 2 && T_IDX(t)[parent_of(i)] == UNUSED) return 0;
  }
  if (n + (uint64_t)pending != T_SIZE(t)) return 0;
  if (t->f0.f0 != &T_IDX(t)[rs + 1] || t->f0.f1 != &T_DATA(t)[rs + 1]) return 0;
  if (t->f1.f0 != &T_IDX(t)[rs + 1] || t->f1.f1 != &T_DATA(t)[rs + 1]) return 0;
  return 1;
}
SPEC int absent_and_adjacent(const TREE_T *t, uint64_t leaf, uint64_t key) {
  for (uint64_t p = 1; p <= CAP; p++) if (p <= T_RS(t)) { if (T_IDX(t)[p] == key) return 0; if (!neighbour(t, leaf, key, p)) return 0; }
  return 1;
}
void FN_rebalance(TITER_T *result, TREE_T *t, TITER_T *itr, uint64_t key, const MPZ_T *value)
  PRE(shape, T_RS(t) == RS && RS >= 7 && ENTRY_ARRAYS(t) && tree_shape(t, 1))
  PRE(density, !ratio_gt(T_SIZE(t), RS, 91) && !ratio_lt(T_SIZE(t), RS, 38))
  PRE(leaf, itr->f0 == t && itr->f2 == 1 && (itr->f1 & 1) == 1 && itr->f1 >= 1 && itr->f1 <= RS && T_IDX(t)[itr->f1] != UNUSED)
  PRE(key, key != UNUSED && G_k != UNUSED && absent_and_adjacent(t, itr->f1, key))
  PRE(ghost, coef_eq(lookup(t, G_k), G_old))
  ASSIGNS(TREE_FRAME(t), *result, __CPROVER_object_whole(&G_stack))
  POST(shape, T_RS(t) == RS && tree_shape(t, 0))
  POST(map_updated, coef_eq(lookup(t, G_k), G_k == key ? G_new_data : G_old));

/* ---- hinted insertion: insert(itr, key, data) with ANY iterator of the tree as hint (however stale) ----
   The function locates the two in-order neighbours of `key' from the hint (bisect_near, replaced by its
   contract, which is enforced by the bisect_near tasks) and hands the DEEPER one to insert_precise(), whose
   documented precondition (a debug-only assertion in the code) is that the node is where the descent from the
   root searching `key' stops.
   insert_precise() itself is NOT discharged (section 10.2 of DESIGN.md): FN_insert_precise below is an ASSUMED
   contract.  What this task decides is everything around it: the hint handling, that the callee's precondition
   holds at every call site, the replacement path, the frame, and -- given the assumed map update -- the result. */
SPEC uint64_t search_stop(const TREE_T *t, uint64_t key) {      /* tree_iterator::go_down_searching_key from the root */
  uint64_t i = (T_RS(t) + 1) / 2;
  for (int d = 0; d < 6; d++) {
    uint64_t b = lowbit(i), c;
    if (b == 1 || T_IDX(t)[i] == key) return i;
    c = key < T_IDX(t)[i] ? i - b / 2 : i + b / 2;
    if (T_IDX(t)[c] == UNUSED) return i;
    i = c;
  }
  return i;
}
SPEC int arrays_ok(const TREE_T *t) {
  return (T_IDX(t) == G_idx && T_DATA(t) == G_dat && T_RS(t) == RS) || (T_IDX(t) == POOL_IDX && T_DATA(t) == POOL_DAT && T_RS(t) == 2 * RS + 1);
}
void FN_insert_precise(TITER_T *result, TREE_T *t, uint64_t key, const MPZ_T *data, TITER_T *itr)
  PRE(wf, tree_wf(t) && T_RS(t) == RS && ENTRY_ARRAYS(t) && T_SIZE(t) > 0 && key != UNUSED)
  PRE(hint_is_the_search_stop, itr->f0 == t && itr->f1 == search_stop(t, key) && itr->f2 == lowbit(itr->f1))
  PRE(ghost, coef_eq(lookup(t, G_k), G_old) && coef_eq(coef_of(data), G_new_data))
  ASSIGNS(TREE_FRAME(t), *result)
  /* pointer fields of a havocked object must be re-established with __CPROVER_pointer_equals: CBMC dereferences
     through points-to sets, an equality on a nondeterministic pointer would leave later reads unconstrained */
  POST(assumed_capacity, T_RS(t) == RS || T_RS(t) == 2 * RS + 1)
  POST(assumed_arrays, T_RS(t) == RS ? (__CPROVER_pointer_equals(T_IDX(t), G_idx) && __CPROVER_pointer_equals(T_DATA(t), G_dat))
                                     : (__CPROVER_pointer_equals(T_IDX(t), POOL_IDX) && __CPROVER_pointer_equals(T_DATA(t), POOL_DAT)))
  POST(assumed_cached_end, __CPROVER_pointer_equals(t->f0.f0, &T_IDX(t)[T_RS(t) + 1]) && __CPROVER_pointer_equals(t->f1.f0, &T_IDX(t)[T_RS(t) + 1])
                        && t->f0.f1 == &T_DATA(t)[T_RS(t) + 1] && t->f1.f1 == &T_DATA(t)[T_RS(t) + 1])   /* one-past-the-end data pointers: compared, never dereferenced */
  POST(assumed_wf, tree_wf(t))
  POST(assumed_map_updated, coef_eq(lookup(t, G_k), G_k == key ? G_new_data : G_old))
  POST(assumed_size, (int)T_SIZE(t) == G_old_size + (G_key_was_present ? 0 : 1))
  POST(assumed_result, __CPROVER_pointer_equals(result->f0, t) && result->f1 >= 1 && result->f1 <= T_RS(t) && T_IDX(t)[result->f1] == key && result->f2 == lowbit(result->f1)
                       && coef_eq(coef_of(&T_DATA(t)[result->f1]), G_new_data));

void FN_insert_hinted(ITER_T *result, TREE_T *t, ITER_T *itr, uint64_t key, const MPZ_T *data)
  PRE(wf, tree_wf(t) && T_RS(t) == RS && RS != 0 && T_IDX(t) == G_idx && T_DATA(t) == G_dat && T_SIZE(t) > 0)
  PRE(key, key != UNUSED && G_k != UNUSED)
  PRE(any_iterator_of_the_tree, G_p >= 1 && G_p <= RS + 1 && (G_p == RS + 1 || G_idx[G_p] != UNUSED) && itr->f0 == &G_idx[G_p] && itr->f1 == &G_dat[G_p])
  PRE(ghost, coef_eq(lookup(t, G_k), G_old) && coef_eq(coef_of(data), G_new_data) && (int)T_SIZE(t) == G_old_size && G_key_was_present == lookup(t, key).present)
  ASSIGNS(TREE_FRAME(t), *result)
  POST(wf, tree_wf(t))
  POST(map_updated, coef_eq(lookup(t, G_k), G_k == key ? G_new_data : G_old))
  POST(size, (int)T_SIZE(t) == G_old_size + (G_key_was_present ? 0 : 1))
  POST(result_points_to_key, *result->f0 == key && coef_eq(coef_of(result->f1), G_new_data));
#endif
#endif
