/* C12 contracts: Interval<B, Info> over a native integer boundary type B.
 *
 * Abstract view of an interval object x (read off its representation; the bit
 * positions and policy switches are exported by the unit from the code):
 *     lo_inf(x), lo(x), lo_open(x)      lower bound: -inf, or the integer lo(x), open or closed
 *     hi_inf(x), hi(x), hi_open(x)      upper bound
 * and the set it denotes:  mem(x, a)  for a ghost point a.
 *
 * Ghost points are near-standard numbers  a = n + s*eps  (n integer, s in {-1,0,1},
 * eps a positive infinitesimal): comparisons are lexicographic, sums and products
 * stay polynomials in eps of degree <= 2.  A bound that is off by one, a lost
 * infinity, or a bound wrongly closed/open is witnessed by such a point.
 *
 * The postconditions are the clauses of property C12:
 *   enclosure  a in x and b in y  =>  a op b in result          (every operation)
 *   exactness  integer bounds are an exact bound type: for neg add sub mul join
 *              intersect difference assign the result is the smallest interval
 *              containing the exact image (stated through ghost witnesses: every
 *              finite bound of the result is attained, or approached, by corner values)
 *              unless the bound overflowed B
 *   emptiness  empty operands give an empty result; non-empty operands a non-empty one
 *   frame      only *to is assigned
 */
#ifndef VERIF_C12_INTERVAL_H
#define VERIF_C12_INTERVAL_H
#include "../C11/spec.h"

#define ITV_BITS(p) ((p)->f0.f0)
#define ITV_LO(p)   ((p)->f1)
#define ITV_HI(p)   ((p)->f2)
#define BIT(p, k)   ((int)((ITV_BITS(p) >> (k)) & 1u))

/* ---- abstract view ---- */
SPEC int lo_inf(const ITV_T *x) { return STORE_SPECIAL ? BIT(x, LOWER_SPECIAL_BIT) : 0; }
SPEC int hi_inf(const ITV_T *x) { return STORE_SPECIAL ? BIT(x, UPPER_SPECIAL_BIT) : 0; }
SPEC int lo_open(const ITV_T *x) { return STORE_OPEN ? BIT(x, LOWER_OPEN_BIT) : 0; }
SPEC int hi_open(const ITV_T *x) { return STORE_OPEN ? BIT(x, UPPER_OPEN_BIT) : 0; }
SPEC ex_t lo(const ITV_T *x) { return x_num(ITV_LO(x)); }
SPEC ex_t hi(const ITV_T *x) { return x_num(ITV_HI(x)); }

/* near-standard numbers c0 + c1*eps + c2*eps^2 */
typedef struct { ex_t c0, c1, c2; } ns_t;
SPEC ns_t ns(ex_t n, int s) { ns_t r; r.c0 = n; r.c1 = s; r.c2 = 0; return r; }
SPEC int ns_sgn(ns_t a) { return a.c0 != 0 ? sgn_ex(a.c0) : a.c1 != 0 ? sgn_ex(a.c1) : sgn_ex(a.c2); }
SPEC ns_t ns_sub_int(ns_t a, ex_t k) { a.c0 -= k; return a; }
SPEC ns_t ns_neg(ns_t a) { a.c0 = -a.c0; a.c1 = -a.c1; a.c2 = -a.c2; return a; }
SPEC ns_t ns_add(ns_t a, ns_t b) { a.c0 += b.c0; a.c1 += b.c1; a.c2 += b.c2; return a; }
/* product of two degree-1 numbers */
SPEC ns_t ns_mul(ns_t a, ns_t b) { ns_t r; r.c0 = a.c0 * b.c0; r.c1 = a.c0 * b.c1 + a.c1 * b.c0; r.c2 = a.c1 * b.c1; return r; }
SPEC ns_t ns_scale(ns_t a, ex_t k) { a.c0 *= k; a.c1 *= k; a.c2 *= k; return a; }
/* sign(a - k) */
SPEC int ns_cmp_int(ns_t a, ex_t k) { return ns_sgn(ns_sub_int(a, k)); }

/* membership of a near-standard number (finite by construction) */
SPEC int mem(const ITV_T *x, ns_t a) {
  if (!lo_inf(x)) { int c = ns_cmp_int(a, lo(x)); if (c < 0 || (c == 0 && lo_open(x))) return 0; }
  if (!hi_inf(x)) { int c = ns_cmp_int(a, hi(x)); if (c > 0 || (c == 0 && hi_open(x))) return 0; }
  return 1;
}
/* the denoted set is empty (as a set of reals) */
SPEC int is_empty_set(const ITV_T *x) {
  if (lo_inf(x) || hi_inf(x)) return 0;
  return lo(x) > hi(x) || (lo(x) == hi(x) && (lo_open(x) || hi_open(x)));
}
/* representable in the boundary type */
SPEC int in_B(ex_t v) { return v >= EMIN && v <= EMAX; }
/* ghost-point well-formedness */
SPEC int ns_ok(ex_t n, int s) { return (s == -1 || s == 0 || s == 1) && n >= -GHOST_RANGE && n <= GHOST_RANGE; }

/* a/b in x  for b != 0 (near-standard), without dividing:  lo <= a/b  <=>  sign(b) * (a - lo*b) >= 0 */
SPEC int mem_quot(const ITV_T *x, ns_t a, ns_t b) {
  int sb = ns_sgn(b);
  if (!lo_inf(x)) { int c = ns_sgn(ns_add(a, ns_neg(ns_scale(b, lo(x))))) * sb; if (c < 0 || (c == 0 && lo_open(x))) return 0; }
  if (!hi_inf(x)) { int c = ns_sgn(ns_add(a, ns_neg(ns_scale(b, hi(x))))) * sb; if (c > 0 || (c == 0 && hi_open(x))) return 0; }
  return 1;
}

/* ghost state: chosen arbitrarily by the harness, read by the contracts */
extern ex_t G_an, G_bn; extern int G_as, G_bs;
#define GA ns(G_an, G_as)
#define GB ns(G_bn, G_bs)
#define GHOST_OK (ns_ok(G_an, G_as) && ns_ok(G_bn, G_bs))

/* representation well-formedness: the library's own Interval::OK() (extracted), plus: infinite bounds of a
   policy that cannot contain infinities are open (what every constructor and operation establishes) */
#if defined(VERIF_NATIVE)
# define VSTR2(a) #a
# define VSTR(a) VSTR2(a)
extern bool real_OK(const ITV_T *) __asm__(VSTR(FN_OK));
# define WF(x) (real_OK(x))
#else
# define WF(x) (FN_OK(x))
#endif

/* ================================================================== contract table
   C_<op>_POSTS(R, TO, X, Y): TO, X, Y are pointers to (the entry copies of) the interval objects */
#define C_neg_POSTS(R, TO, X, Y) \
  POST(wf, WF(TO)) \
  POST(enclosure, !(GHOST_OK && mem(X, GA)) || mem(TO, ns_neg(GA))) \
  POST(exact_lower, is_empty_set(X) || (hi_inf(X) ? lo_inf(TO) : (!in_B(-hi(X)) ? 1 : (!lo_inf(TO) && lo(TO) == -hi(X) && lo_open(TO) == hi_open(X))))) \
  POST(exact_upper, is_empty_set(X) || (lo_inf(X) ? hi_inf(TO) : (!in_B(-lo(X)) ? 1 : (!hi_inf(TO) && hi(TO) == -lo(X) && hi_open(TO) == lo_open(X))))) \
  POST(emptiness, is_empty_set(X) == is_empty_set(TO))

#define C_add_POSTS(R, TO, X, Y) \
  POST(wf, WF(TO)) \
  POST(enclosure, !(GHOST_OK && mem(X, GA) && mem(Y, GB)) || mem(TO, ns_add(GA, GB))) \
  POST(exact_lower, is_empty_set(X) || is_empty_set(Y) || (lo_inf(X) || lo_inf(Y) ? lo_inf(TO) : \
        (!in_B(lo(X) + lo(Y)) ? 1 : (!lo_inf(TO) && lo(TO) == lo(X) + lo(Y) && lo_open(TO) == (lo_open(X) || lo_open(Y)))))) \
  POST(exact_upper, is_empty_set(X) || is_empty_set(Y) || (hi_inf(X) || hi_inf(Y) ? hi_inf(TO) : \
        (!in_B(hi(X) + hi(Y)) ? 1 : (!hi_inf(TO) && hi(TO) == hi(X) + hi(Y) && hi_open(TO) == (hi_open(X) || hi_open(Y)))))) \
  POST(emptiness, (is_empty_set(X) || is_empty_set(Y)) == is_empty_set(TO))

#define C_sub_POSTS(R, TO, X, Y) \
  POST(wf, WF(TO)) \
  POST(enclosure, !(GHOST_OK && mem(X, GA) && mem(Y, GB)) || mem(TO, ns_add(GA, ns_neg(GB)))) \
  POST(exact_lower, is_empty_set(X) || is_empty_set(Y) || (lo_inf(X) || hi_inf(Y) ? lo_inf(TO) : \
        (!in_B(lo(X) - hi(Y)) ? 1 : (!lo_inf(TO) && lo(TO) == lo(X) - hi(Y) && lo_open(TO) == (lo_open(X) || hi_open(Y)))))) \
  POST(exact_upper, is_empty_set(X) || is_empty_set(Y) || (hi_inf(X) || lo_inf(Y) ? hi_inf(TO) : \
        (!in_B(hi(X) - lo(Y)) ? 1 : (!hi_inf(TO) && hi(TO) == hi(X) - lo(Y) && hi_open(TO) == (hi_open(X) || lo_open(Y)))))) \
  POST(emptiness, (is_empty_set(X) || is_empty_set(Y)) == is_empty_set(TO))

#define C_mul_POSTS(R, TO, X, Y) \
  POST(wf, WF(TO)) \
  POST(enclosure, !(GHOST_OK && mem(X, GA) && mem(Y, GB)) || mem(TO, ns_mul(GA, GB))) \
  POST(emptiness, (is_empty_set(X) || is_empty_set(Y)) == is_empty_set(TO))

#define C_div_POSTS(R, TO, X, Y) \
  POST(wf, WF(TO)) \
  POST(enclosure, !(GHOST_OK && mem(X, GA) && mem(Y, GB) && ns_sgn(GB) != 0) || mem_quot(TO, GA, GB)) \
  POST(emptiness, !(is_empty_set(X) || is_empty_set(Y)) || is_empty_set(TO))

#if defined(VERIF_CBMC)
_Bool FN_OK(const ITV_T *x);
#define CONTRACT_ITV1(OP) uint32_t FN_##OP(ITV_T *to, const ITV_T *x) \
  PRE(wf_x, WF(x)) ASSIGNS(*to) C_##OP##_POSTS(RET, to, x, x);
#define CONTRACT_ITV2(OP) uint32_t FN_##OP(ITV_T *to, const ITV_T *x, const ITV_T *y) \
  PRE(wf_x, WF(x)) PRE(wf_y, WF(y)) ASSIGNS(*to) C_##OP##_POSTS(RET, to, x, y);
#ifdef FN_neg
CONTRACT_ITV1(neg)
#endif
#ifdef FN_add
CONTRACT_ITV2(add)
#endif
#ifdef FN_sub
CONTRACT_ITV2(sub)
#endif
#ifdef FN_mul
CONTRACT_ITV2(mul)
#endif
#ifdef FN_div
CONTRACT_ITV2(div)
#endif
#endif
#endif
