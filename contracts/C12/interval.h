/* C12 contracts: Interval<B, Info> over a native integer boundary type B.
 *
 * Abstract view of an interval object x (read off its representation; the bit
 * positions and policy switches are exported by the unit from the code):
 *     lo_inf(x), lo(x), lo_open(x)      lower bound: -inf, or the integer lo(x), open or closed
 *     hi_inf(x), hi(x), hi_open(x)      upper bound
 * and the set it denotes:  mem(x, a)  for a ghost point a.
 *
 * Ghost points are near-standard numbers  a = n + s*eps  (n integer, s in {-1,0,1},
 * eps a positive infinitesimal): comparisons are lexicographic, sums and products
 * stay polynomials in eps of degree <= 2.  A bound that is off by one, a lost
 * infinity, or a bound wrongly closed/open is witnessed by such a point.
 *
 * The postconditions are the clauses of property C12:
 *   enclosure  a in x and b in y  =>  a op b in result          (every operation)
 *   exactness  integer bounds are an exact bound type: for neg add sub mul join
 *              intersect difference assign the result is the smallest interval
 *              containing the exact image (stated through ghost witnesses: every
 *              finite bound of the result is attained, or approached, by corner values)
 *              unless the bound overflowed B
 *   emptiness  empty operands give an empty result; non-empty operands a non-empty one
 *   frame      only *to is assigned
 */
#ifndef VERIF_C12_INTERVAL_H
#define VERIF_C12_INTERVAL_H
#include "../C11/spec.h"

#define ITV_BITS(p) ((p)->f0.f0)
#define ITV_LO(p)   ((p)->f1)
#define ITV_HI(p)   ((p)->f2)
#define BIT(p, k)   ((int)((ITV_BITS(p) >> (k)) & 1u))

/* ---- abstract view ---- */
SPEC int lo_inf(const ITV_T *x) { return STORE_SPECIAL ? BIT(x, LOWER_SPECIAL_BIT) : 0; }
SPEC int hi_inf(const ITV_T *x) { return STORE_SPECIAL ? BIT(x, UPPER_SPECIAL_BIT) : 0; }
SPEC int lo_open(const ITV_T *x) { return STORE_OPEN ? BIT(x, LOWER_OPEN_BIT) : 0; }
SPEC int hi_open(const ITV_T *x) { return STORE_OPEN ? BIT(x, UPPER_OPEN_BIT) : 0; }
SPEC ex_t lo(const ITV_T *x) { return x_num(ITV_LO(x)); }
SPEC ex_t hi(const ITV_T *x) { return x_num(ITV_HI(x)); }

/* near-standard numbers c0 + c1*eps + c2*eps^2 */
typedef struct { ex_t c0, c1, c2; } ns_t;
SPEC ns_t ns(ex_t n, int s) { ns_t r; r.c0 = n; r.c1 = s; r.c2 = 0; return r; }
SPEC int ns_sgn(ns_t a) { return a.c0 != 0 ? sgn_ex(a.c0) : a.c1 != 0 ? sgn_ex(a.c1) : sgn_ex(a.c2); }
SPEC ns_t ns_sub_int(ns_t a, ex_t k) { a.c0 -= k; return a; }
SPEC ns_t ns_neg(ns_t a) { a.c0 = -a.c0; a.c1 = -a.c1; a.c2 = -a.c2; return a; }
SPEC ns_t ns_add(ns_t a, ns_t b) { a.c0 += b.c0; a.c1 += b.c1; a.c2 += b.c2; return a; }
/* product of two degree-1 numbers */
SPEC ns_t ns_mul(ns_t a, ns_t b) { ns_t r; r.c0 = a.c0 * b.c0; r.c1 = a.c0 * b.c1 + a.c1 * b.c0; r.c2 = a.c1 * b.c1; return r; }
SPEC ns_t ns_scale(ns_t a, ex_t k) { a.c0 *= k; a.c1 *= k; a.c2 *= k; return a; }
/* sign(a - k) */
SPEC int ns_cmp_int(ns_t a, ex_t k) { return ns_sgn(ns_sub_int(a, k)); }

/* membership of a near-standard number (finite by construction) */
SPEC int mem(const ITV_T *x, ns_t a) {
  if (!lo_inf(x)) { int c = ns_cmp_int(a, lo(x)); if (c < 0 || (c == 0 && lo_open(x))) return 0; }
  if (!hi_inf(x)) { int c = ns_cmp_int(a, hi(x)); if (c > 0 || (c == 0 && hi_open(x))) return 0; }
  return 1;
}
/* the denoted set is empty (as a set of reals) */
SPEC int is_empty_set(const ITV_T *x) {
  if (lo_inf(x) || hi_inf(x)) return 0;
  return lo(x) > hi(x) || (lo(x) == hi(x) && (lo_open(x) || hi_open(x)));
}
/* representable in the boundary type */
SPEC int in_B(ex_t v) { return v >= EMIN && v <= EMAX; }
/* ghost-point well-formedness */
SPEC int ns_ok(ex_t n, int s) { return (s == -1 || s == 0 || s == 1) && n >= -GHOST_RANGE && n <= GHOST_RANGE; }

/* a/b in x  for b != 0 (near-standard), without dividing:  lo <= a/b  <=>  sign(b) * (a - lo*b) >= 0 */
SPEC int mem_quot(const ITV_T *x, ns_t a, ns_t b) {
  int sb = ns_sgn(b);
  if (!lo_inf(x)) { int c = ns_sgn(ns_add(a, ns_neg(ns_scale(b, lo(x))))) * sb; if (c < 0 || (c == 0 && lo_open(x))) return 0; }
  if (!hi_inf(x)) { int c = ns_sgn(ns_add(a, ns_neg(ns_scale(b, hi(x))))) * sb; if (c > 0 || (c == 0 && hi_open(x))) return 0; }
  return 1;
}

/* ghost state: chosen arbitrarily by the harness, read by the contracts */
extern ex_t G_an, G_bn; extern int G_as, G_bs;
#define GA ns(G_an, G_as)
#define GB ns(G_bn, G_bs)
#define GHOST_OK (ns_ok(G_an, G_as) && ns_ok(G_bn, G_bs))

/* representation well-formedness: the library's own Interval::OK() (extracted), plus: infinite bounds of a
   policy that cannot contain infinities are open (what every constructor and operation establishes) */
#if defined(VERIF_NATIVE)
# define VSTR2(a) #a
# define VSTR(a) VSTR2(a)
extern bool real_OK(const ITV_T *) __asm__(VSTR(FN_OK));
# define WF(x) (real_OK(x))
#else
# define WF(x) (FN_OK(x))
#endif

/* ================================================================== contract table
   C_<op>_POSTS(R, TO, X, Y): TO, X, Y are pointers to (the entry copies of) the interval objects */
#define C_neg_POSTS(R, TO, X, Y) \
  POST(wf, WF(TO)) \
  POST(enclosure, !(GHOST_OK && mem(X, GA)) || mem(TO, ns_neg(GA))) \
  POST(exact_lower, is_empty_set(X) || (hi_inf(X) ? lo_inf(TO) : (!in_B(-hi(X)) ? 1 : (!lo_inf(TO) && lo(TO) == -hi(X) && lo_open(TO) == hi_open(X))))) \
  POST(exact_upper, is_empty_set(X) || (lo_inf(X) ? hi_inf(TO) : (!in_B(-lo(X)) ? 1 : (!hi_inf(TO) && hi(TO) == -lo(X) && hi_open(TO) == lo_open(X))))) \
  POST(emptiness, is_empty_set(X) == is_empty_set(TO))

#define C_add_POSTS(R, TO, X, Y) \
  POST(wf, WF(TO)) \
  POST(enclosure, !(GHOST_OK && mem(X, GA) && mem(Y, GB)) || mem(TO, ns_add(GA, GB))) \
  POST(exact_lower, is_empty_set(X) || is_empty_set(Y) || (lo_inf(X) || lo_inf(Y) ? lo_inf(TO) : \
        (!in_B(lo(X) + lo(Y)) ? 1 : (!lo_inf(TO) && lo(TO) == lo(X) + lo(Y) && lo_open(TO) == (lo_open(X) || lo_open(Y)))))) \
  POST(exact_upper, is_empty_set(X) || is_empty_set(Y) || (hi_inf(X) || hi_inf(Y) ? hi_inf(TO) : \
        (!in_B(hi(X) + hi(Y)) ? 1 : (!hi_inf(TO) && hi(TO) == hi(X) + hi(Y) && hi_open(TO) == (hi_open(X) || hi_open(Y)))))) \
  POST(emptiness, (is_empty_set(X) || is_empty_set(Y)) == is_empty_set(TO))

#define C_sub_POSTS(R, TO, X, Y) \
  POST(wf, WF(TO)) \
  POST(enclosure, !(GHOST_OK && mem(X, GA) && mem(Y, GB)) || mem(TO, ns_add(GA, ns_neg(GB)))) \
  POST(exact_lower, is_empty_set(X) || is_empty_set(Y) || (lo_inf(X) || hi_inf(Y) ? lo_inf(TO) : \
        (!in_B(lo(X) - hi(Y)) ? 1 : (!lo_inf(TO) && lo(TO) == lo(X) - hi(Y) && lo_open(TO) == (lo_open(X) || hi_open(Y)))))) \
  POST(exact_upper, is_empty_set(X) || is_empty_set(Y) || (hi_inf(X) || lo_inf(Y) ? hi_inf(TO) : \
        (!in_B(hi(X) - lo(Y)) ? 1 : (!hi_inf(TO) && hi(TO) == hi(X) - lo(Y) && hi_open(TO) == (hi_open(X) || lo_open(Y)))))) \
  POST(emptiness, (is_empty_set(X) || is_empty_set(Y)) == is_empty_set(TO))

#define C_mul_POSTS(R, TO, X, Y) \
  POST(wf, WF(TO)) \
  POST(enclosure, !(GHOST_OK && mem(X, GA) && mem(Y, GB)) || mem(TO, ns_mul(GA, GB))) \
  POST(emptiness, (is_empty_set(X) || is_empty_set(Y)) == is_empty_set(TO))

#define C_div_POSTS(R, TO, X, Y) \
  POST(wf, WF(TO)) \
  POST(enclosure, !(GHOST_OK && mem(X, GA) && mem(Y, GB) && ns_sgn(GB) != 0) || mem_quot(TO, GA, GB)) \
  POST(emptiness, !(is_empty_set(X) || is_empty_set(Y)) || is_empty_set(TO))

/* ---- bounds as ordered keys: a lower bound admits everything >= (v, o) lexicographically (o = 1: open) ---- */
SPEC int lower_le(const ITV_T *x, const ITV_T *y) {      /* lower(x) <= lower(y): x admits (downwards) everything y does */
  if (lo_inf(x)) return 1;
  if (lo_inf(y)) return 0;
  return lo(x) < lo(y) || (lo(x) == lo(y) && lo_open(x) <= lo_open(y));
}
SPEC int upper_ge(const ITV_T *x, const ITV_T *y) {
  if (hi_inf(x)) return 1;
  if (hi_inf(y)) return 0;
  return hi(x) > hi(y) || (hi(x) == hi(y) && hi_open(x) <= hi_open(y));
}
SPEC int lower_eq(const ITV_T *x, const ITV_T *y) { return lo_inf(x) ? lo_inf(y) : (!lo_inf(y) && lo(x) == lo(y) && lo_open(x) == lo_open(y)); }
SPEC int upper_eq(const ITV_T *x, const ITV_T *y) { return hi_inf(x) ? hi_inf(y) : (!hi_inf(y) && hi(x) == hi(y) && hi_open(x) == hi_open(y)); }
SPEC int set_eq(const ITV_T *x, const ITV_T *y) { return is_empty_set(x) ? is_empty_set(y) : (!is_empty_set(y) && lower_eq(x, y) && upper_eq(x, y)); }
SPEC int set_contains(const ITV_T *x, const ITV_T *y) { return is_empty_set(y) || (!is_empty_set(x) && lower_le(x, y) && upper_ge(x, y)); }
/* upper(x) lies strictly below lower(y): no common point */
SPEC int below(const ITV_T *x, const ITV_T *y) { return !hi_inf(x) && !lo_inf(y) && (hi(x) < lo(y) || (hi(x) == lo(y) && (hi_open(x) || lo_open(y)))); }
SPEC int set_disjoint(const ITV_T *x, const ITV_T *y) { return is_empty_set(x) || is_empty_set(y) || below(x, y) || below(y, x); }

/* Relation_Symbol (globals_defs.hh): EQUAL=1, LESS_THAN=2, LESS_OR_EQUAL=3, GREATER_THAN=4, GREATER_OR_EQUAL=5, NOT_EQUAL=6 */
#define REL_EQ 1u
#define REL_LT 2u
#define REL_LE 3u
#define REL_GT 4u
#define REL_GE 5u
#define REL_NE 6u
SPEC int rel_valid(uint32_t rel) { return rel >= 1u && rel <= 6u; }
SPEC int ns_rel(ns_t a, uint32_t rel, ns_t b) {
  int c = ns_sgn(ns_add(a, ns_neg(b)));
  return rel == REL_EQ ? c == 0 : rel == REL_LT ? c < 0 : rel == REL_LE ? c <= 0 : rel == REL_GT ? c > 0 : rel == REL_GE ? c >= 0 : c != 0;
}
/* for all b in x: a rel b  (x non-empty), decided on the bounds of x */
SPEC int ns_below_lower(ns_t a, const ITV_T *x, int strict) {  /* a < (<=) every member of x */
  int c; if (lo_inf(x)) return 0; c = ns_cmp_int(a, lo(x));
  return strict ? (c < 0 || (c == 0 && lo_open(x))) : (c <= 0);
}
SPEC int ns_above_upper(ns_t a, const ITV_T *x, int strict) {
  int c; if (hi_inf(x)) return 0; c = ns_cmp_int(a, hi(x));
  return strict ? (c > 0 || (c == 0 && hi_open(x))) : (c >= 0);
}
SPEC int is_singleton_set(const ITV_T *x) { return !lo_inf(x) && !hi_inf(x) && lo(x) == hi(x) && !lo_open(x) && !hi_open(x); }
SPEC int forall_rel(ns_t a, uint32_t rel, const ITV_T *x) {
  if (is_empty_set(x)) return 1;
  if (rel == REL_LT) return ns_below_lower(a, x, 1);
  if (rel == REL_LE) return ns_below_lower(a, x, 0);
  if (rel == REL_GT) return ns_above_upper(a, x, 1);
  if (rel == REL_GE) return ns_above_upper(a, x, 0);
  if (rel == REL_EQ) return is_singleton_set(x) && ns_cmp_int(a, lo(x)) == 0;
  return !mem(x, a);
}

#define C_assign_POSTS(R, TO, X, Y) \
  POST(wf, WF(TO)) \
  POST(enclosure, !(GHOST_OK && mem(X, GA)) || mem(TO, GA)) \
  POST(exact, set_eq(TO, X))
/* TO0: entry value of the receiver */
#define C_join_POSTS(R, TO, TO0, X) \
  POST(wf, WF(TO)) \
  POST(enclosure, !(GHOST_OK && (mem(TO0, GA) || mem(X, GA))) || mem(TO, GA)) \
  POST(exact, is_empty_set(TO0) ? set_eq(TO, X) : is_empty_set(X) ? set_eq(TO, TO0) : \
       ((lower_eq(TO, TO0) || lower_eq(TO, X)) && (upper_eq(TO, TO0) || upper_eq(TO, X))))
#define C_join2_POSTS(R, TO, X, Y) C_join_POSTS(R, TO, X, Y)
#define C_intersect_POSTS(R, TO, TO0, X) \
  POST(wf, WF(TO)) \
  POST(enclosure, !(GHOST_OK && mem(TO0, GA) && mem(X, GA)) || mem(TO, GA)) \
  POST(exact, !(GHOST_OK && mem(TO, GA)) || (mem(TO0, GA) && mem(X, GA)))
#define C_intersect2_POSTS(R, TO, X, Y) C_intersect_POSTS(R, TO, X, Y)
#define C_difference_POSTS(R, TO, TO0, X) \
  POST(wf, WF(TO)) \
  POST(enclosure, !(GHOST_OK && mem(TO0, GA) && !mem(X, GA)) || mem(TO, GA)) \
  POST(within, !(GHOST_OK && mem(TO, GA)) || mem(TO0, GA))
#define C_difference2_POSTS(R, TO, X, Y) C_difference_POSTS(R, TO, X, Y)
#define C_refine_existential_POSTS(R, TO, TO0, REL, X) \
  POST(wf, WF(TO)) \
  POST(enclosure, !(GHOST_OK && mem(TO0, GA) && mem(X, GB) && ns_rel(GA, REL, GB)) || mem(TO, GA)) \
  POST(within, !(GHOST_OK && mem(TO, GA)) || mem(TO0, GA))
#define C_refine_universal_POSTS(R, TO, TO0, REL, X) \
  POST(wf, WF(TO)) \
  POST(enclosure, !(GHOST_OK && mem(TO0, GA) && forall_rel(GA, REL, X)) || mem(TO, GA)) \
  POST(within, !(GHOST_OK && mem(TO, GA)) || mem(TO0, GA))
#define C_is_empty_POSTS(R, X, Y)            POST(value, ((R) != 0) == is_empty_set(X))
#define C_contains_POSTS(R, X, Y)            POST(value, ((R) != 0) == set_contains(X, Y))
#define C_strictly_contains_POSTS(R, X, Y)   POST(value, ((R) != 0) == (set_contains(X, Y) && !set_eq(X, Y)))
#define C_is_disjoint_from_POSTS(R, X, Y)    POST(value, ((R) != 0) == set_disjoint(X, Y))
#define C_equal_POSTS(R, X, Y)               POST(value, ((R) != 0) == set_eq(X, Y))

#if defined(VERIF_CBMC)
_Bool FN_OK(const ITV_T *x);
#ifndef ALIAS_VARIANT
#define CONTRACT_ITV1(OP) uint32_t FN_##OP(ITV_T *to, const ITV_T *x) \
  PRE(wf_x, WF(x)) ASSIGNS(*to) C_##OP##_POSTS(RET, to, x, x);
#define CONTRACT_ITV2(OP) uint32_t FN_##OP(ITV_T *to, const ITV_T *x, const ITV_T *y) \
  PRE(wf_x, WF(x)) PRE(wf_y, WF(y)) ASSIGNS(*to) C_##OP##_POSTS(RET, to, x, y);
#else
/* aliased-argument variant (check C13): the operands may be the receiver itself; the same clauses are
   stated against the ENTRY values of the operands, which the harness keeps in the ghost copies G_x0, G_y0 */
extern ITV_T G_x0, G_y0;
#define CONTRACT_ITV1(OP) uint32_t FN_##OP(ITV_T *to, const ITV_T *x) \
  PRE(wf_x, WF(&G_x0)) ASSIGNS(*to) C_##OP##_POSTS(RET, to, (&G_x0), (&G_x0));
#define CONTRACT_ITV2(OP) uint32_t FN_##OP(ITV_T *to, const ITV_T *x, const ITV_T *y) \
  PRE(wf_x, WF(&G_x0)) PRE(wf_y, WF(&G_y0)) ASSIGNS(*to) C_##OP##_POSTS(RET, to, (&G_x0), (&G_y0));
#endif
#ifdef FN_neg
CONTRACT_ITV1(neg)
#endif
#ifdef FN_add
CONTRACT_ITV2(add)
#endif
#ifdef FN_sub
CONTRACT_ITV2(sub)
#endif
#ifdef FN_mul
CONTRACT_ITV2(mul)
#endif
#ifdef FN_div
CONTRACT_ITV2(div)
#endif
#define CONTRACT_ITV_SELF(OP) uint32_t FN_##OP(ITV_T *to, const ITV_T *x) \
  PRE(wf_to, WF(to)) PRE(wf_x, WF(x)) ASSIGNS(*to) C_##OP##_POSTS(RET, to, OLD_ITV(to), x);
#define CONTRACT_ITV_REL(OP) uint32_t FN_##OP(ITV_T *to, uint32_t rel, const ITV_T *x) \
  PRE(wf_to, WF(to)) PRE(wf_x, WF(x)) PRE(rel, rel_valid(rel)) ASSIGNS(*to) C_##OP##_POSTS(RET, to, OLD_ITV(to), rel, x);
#define CONTRACT_ITV_PRED1(OP) _Bool FN_##OP(const ITV_T *x) PRE(wf_x, WF(x)) ASSIGNS() C_##OP##_POSTS(RET, x, x);
#define CONTRACT_ITV_PRED2(OP) _Bool FN_##OP(const ITV_T *x, const ITV_T *y) PRE(wf_x, WF(x)) PRE(wf_y, WF(y)) ASSIGNS() C_##OP##_POSTS(RET, x, y);
/* entry value of the receiver: a ghost copy made by the harness before the call (G_to0), since
   __CPROVER_old() of a whole struct is not usable as a pointer argument */
extern ITV_T G_to0;
#define OLD_ITV(to) (&G_to0)
#ifdef FN_assign
CONTRACT_ITV1(assign)
#endif
#ifdef FN_join
CONTRACT_ITV_SELF(join)
#endif
#ifdef FN_join2
CONTRACT_ITV2(join2)
#endif
#ifdef FN_intersect
CONTRACT_ITV_SELF(intersect)
#endif
#ifdef FN_intersect2
CONTRACT_ITV2(intersect2)
#endif
#ifdef FN_difference
CONTRACT_ITV_SELF(difference)
#endif
#ifdef FN_difference2
CONTRACT_ITV2(difference2)
#endif
#ifdef FN_refine_existential
CONTRACT_ITV_REL(refine_existential)
#endif
#ifdef FN_refine_universal
CONTRACT_ITV_REL(refine_universal)
#endif
#ifdef FN_is_empty
CONTRACT_ITV_PRED1(is_empty)
#endif
#ifdef FN_contains
CONTRACT_ITV_PRED2(contains)
#endif
#ifdef FN_strictly_contains
CONTRACT_ITV_PRED2(strictly_contains)
#endif
#ifdef FN_is_disjoint_from
CONTRACT_ITV_PRED2(is_disjoint_from)
#endif
#ifdef FN_equal
CONTRACT_ITV_PRED2(equal)
#endif
#endif
#endif
