/* C09 contracts: Pointset_Powerset<Box<ITV>> -- the generic Powerset / Pointset_Powerset templates over a
 * std::list of Determinate<Box> copy-on-write handles; all real code, down to the checked numbers.
 *
 * Abstract view: a powerset denotes the UNION of its disjuncts,
 *        ps_sat(s) = exists disjunct d of s: box_sat(d)          (ghost point, near-standard coordinates).
 * Clauses, from the statement of C09:
 *   omega_reduce, pairwise_reduce     never change the union;
 *   collapse                          only enlarges it;
 *   add_disjunct, upper_bound_assign  act on the union exactly (union with the argument);
 *   intersection_assign               the result contains the meet of the unions;
 *   contains / definitely_entails     entailment-based containment implies containment of the unions;
 *   is_empty, is_disjoint_from        a definite answer is true of the unions;
 *   sharing                           a disjunct representation shared with another powerset (copy on write)
 *                                     keeps that other powerset's union unchanged;
 *   invariant                         the list, the handles and every disjunct box stay well formed.
 * BOUNDED: at most PS_N = 2 disjuncts per operand (results: up to 4), space dimension BOX_D.
 */
#ifndef VERIF_C09_POWERSET_H
#define VERIF_C09_POWERSET_H
#include "../C03/box_base.h"
#define PS_N 2
#ifndef PS_MAX
# define PS_MAX 4          /* most disjuncts any state of the task can have (set per task: operands plus results) */
#endif
#define NB_T   struct struct_2estd_3a_3a__detail_3a_3a_List_node_base
#define NODE_T struct struct_2estd_3a_3a_List_node
#define DET_T  struct class_2eParma_Polyhedra_Library_3a_3aDeterminate
typedef __typeof__(*((DET_T *)0)->f0) REP_T;      /* Determinate<Box<...>>::Rep: { reference count, the box } */
#define POW_T  struct class_2eParma_Polyhedra_Library_3a_3aPowerset
#define HDR(ps)        (&(ps)->f0.f0.f0.f0.f0)            /* _List_node_header: f0 = {next, prev}, f1 = size */
#define PS_REDUCED(ps) ((ps)->f0.f1)
#define PS_DIM(ps)     ((ps)->f1)
#define NODE_REP(n)    (((DET_T *)&((NODE_T *)(n))->f1)->f0)
#define REP_REFS(r)    ((r)->f0)
#define REP_BOX(r)     (&(r)->f1)
SPEC const NB_T *ps_end(const PS_T *s) { return (const NB_T *)HDR(s); }
#define NODE_BOX(n) REP_BOX(NODE_REP(n))
/* the disjunct boxes in list order, collected in ONE traversal (b[k] = 0 beyond the end); returns their number,
   -1 if there are more than PS_MAX */
SPEC int ps_boxes(const PS_T *s, const BOX_T *b[PS_MAX]) {
  const NB_T *n = HDR(s)->f0.f0; int c = 0;
  for (int i = 0; i < PS_MAX; i++) {
    if (n != ps_end(s)) { b[i] = NODE_BOX(n); n = n->f0; c++; } else b[i] = 0;
  }
  return n == ps_end(s) ? c : -1;
}
SPEC int ps_count(const PS_T *s) { const BOX_T *b[PS_MAX]; return ps_boxes(s, b); }
SPEC int ps_sat(const PS_T *s) {
  const BOX_T *b[PS_MAX]; int c = ps_boxes(s, b);
  for (int k = 0; k < PS_MAX; k++) if (k < c && bsat(b[k])) return 1;
  return 0;
}
SPEC int box_empty_any(const BOX_T *b) { return box_empty(b, SEQ(b)); }
SPEC int box_contains_any(const BOX_T *a, const BOX_T *b) {     /* set containment a >= b */
  return box_empty_any(b) || (!box_empty_any(a) && ALLK(set_contains(&SEQ(a)[0], &SEQ(b)[0]), set_contains(&SEQ(a)[1], &SEQ(b)[1])));
}
/* omega-reduced: no empty disjunct, none contained in another */
SPEC int ps_omega_reduced(const PS_T *s) {
  const BOX_T *b[PS_MAX]; int c = ps_boxes(s, b);
  for (int i = 0; i < PS_MAX; i++) if (i < c) {
    if (box_empty_any(b[i])) return 0;
    for (int j = 0; j < PS_MAX; j++) if (j < c && j != i && box_contains_any(b[j], b[i])) return 0;
  }
  return 1;
}
SPEC int ps_wf(const PS_T *s) {
  const NB_T *n = HDR(s)->f0.f0, *prev = ps_end(s); int c = 0;
  for (int k = 0; k < PS_MAX; k++) if (n != ps_end(s)) {
    if (n->f1 != prev) return 0;
    if (NODE_REP(n) == 0 || REP_REFS(NODE_REP(n)) == 0 || !box_wf_any(NODE_BOX(n))) return 0;
    prev = n; n = n->f0; c++;
  }
  if (n != ps_end(s) || HDR(s)->f0.f1 != prev) return 0;
  if (HDR(s)->f1 != (uint64_t)c || PS_REDUCED(s) > 1 || PS_DIM(s) != BOX_D) return 0;
  if (PS_REDUCED(s) && !ps_omega_reduced(s)) return 0;
  return 1;
}

extern PS_T G_sx, G_sy;                               /* the operands */
extern NODE_T *G_nx[PS_N], *G_ny[PS_N]; extern REP_T *G_rx[PS_N], *G_ry[PS_N]; extern ITV_T *G_ix[PS_N], *G_iy[PS_N];   /* their heap objects */
extern BOX_T G_d; extern ITV_T *G_id;                 /* a stand-alone box argument (add_disjunct) */
extern int G_ssatX0, G_ssatY0, G_dsat0, G_cntX0;
#define SKEEP_Y POST(y_wf, ps_wf(y)) POST(y_union_unchanged, ps_sat(y) == G_ssatY0)

#define C_s_omega_reduce_POSTS(R) \
  POST(union_unchanged, ps_sat(x) == G_ssatX0) POST(x_wf, ps_wf(x)) POST(reduced, PS_REDUCED(x) == 1 && ps_omega_reduced(x))
#define C_s_pairwise_reduce_POSTS(R) \
  POST(union_unchanged, ps_sat(x) == G_ssatX0) POST(x_wf, ps_wf(x)) POST(no_more_disjuncts, ps_count(x) <= G_cntX0)
#define C_s_collapse_POSTS(R) \
  POST(union_only_grows, !G_ssatX0 || ps_sat(x)) POST(x_wf, ps_wf(x)) POST(at_most_one_disjunct, ps_count(x) <= 1)
#define C_s_add_disjunct_POSTS(R) \
  POST(union_with_the_disjunct, ps_sat(x) == (G_ssatX0 || G_dsat0)) POST(x_wf, ps_wf(x))
#define C_s_upper_bound_POSTS(R) \
  POST(union_of_the_unions, ps_sat(x) == (G_ssatX0 || G_ssatY0)) POST(x_wf, ps_wf(x)) SKEEP_Y
#define C_s_intersection_POSTS(R) \
  POST(contains_meet_of_the_unions, !(G_ssatX0 && G_ssatY0) || ps_sat(x)) POST(x_wf, ps_wf(x)) SKEEP_Y
#define C_s_topological_closure_POSTS(R) \
  POST(contains_x, !G_ssatX0 || ps_sat(x)) POST(x_wf, ps_wf(x))
/* operator=: the copy denotes what the source denotes, is well formed in its own right (in particular its
   'reduced' flag tells the truth about ITS disjunct list), and the source is unaffected */
#define C_s_assign_POSTS(R) \
  POST(same_union, ps_sat(x) == G_ssatY0) POST(x_wf, ps_wf(x)) SKEEP_Y
#define C_s_is_empty_POSTS(R) \
  POST(definite, !(R) || !G_ssatX0) POST(x_wf, ps_wf(x)) POST(x_union_unchanged, ps_sat(x) == G_ssatX0)
#define C_s_contains_POSTS(R) \
  POST(entailment_implies_containment, !(R) || !G_ssatY0 || G_ssatX0) POST(x_wf, ps_wf(x)) POST(x_union_unchanged, ps_sat(x) == G_ssatX0) SKEEP_Y
#define C_s_definitely_entails_POSTS(R) \
  POST(entailment_implies_containment, !(R) || !G_ssatX0 || G_ssatY0) POST(x_wf, ps_wf(x)) POST(x_union_unchanged, ps_sat(x) == G_ssatX0) SKEEP_Y
#define C_s_is_disjoint_from_POSTS(R) \
  POST(definite, !(R) || !(G_ssatX0 && G_ssatY0)) POST(x_wf, ps_wf(x)) POST(x_union_unchanged, ps_sat(x) == G_ssatX0) SKEEP_Y

#if defined(VERIF_CBMC)
#define OBJ(p) __CPROVER_object_whole(p)
#define FRAME_S OBJ(&G_sx), OBJ(&G_sy), OBJ(&G_d), OBJ(G_id), OBJ(G_nx[0]), OBJ(G_nx[1]), OBJ(G_ny[0]), OBJ(G_ny[1]), \
                OBJ(G_rx[0]), OBJ(G_rx[1]), OBJ(G_ry[0]), OBJ(G_ry[1]), OBJ(G_ix[0]), OBJ(G_ix[1]), OBJ(G_iy[0]), OBJ(G_iy[1])
#define FREES_S FREES(G_nx[0], G_nx[1], G_ny[0], G_ny[1], G_rx[0], G_rx[1], G_ry[0], G_ry[1], G_ix[0], G_ix[1], G_iy[0], G_iy[1])
#define PRE_SX  PRE(wf_x, (const PS_T *)x == &G_sx && ps_wf(&G_sx)) PRE(point, pt_ok())
#define PRE_SXY PRE_SX PRE(wf_y, (const PS_T *)y == &G_sy && ps_wf(&G_sy))
#define x ((PS_T *)xx)
#define y ((PS_T *)yy)
void  FN_s_omega_reduce(const POW_T *xx) PRE_SX ASSIGNS(FRAME_S) FREES_S C_s_omega_reduce_POSTS(0);
void  FN_s_collapse(POW_T *xx) PRE_SX ASSIGNS(FRAME_S) FREES_S C_s_collapse_POSTS(0);
void  FN_s_upper_bound(POW_T *xx, const POW_T *yy) PRE_SXY ASSIGNS(FRAME_S) FREES_S C_s_upper_bound_POSTS(0);
_Bool FN_s_definitely_entails(const POW_T *xx, const POW_T *yy) PRE_SXY ASSIGNS(FRAME_S) FREES_S C_s_definitely_entails_POSTS(RET);
#undef x
#undef y
void  FN_s_pairwise_reduce(PS_T *x) PRE_SX ASSIGNS(FRAME_S) FREES_S C_s_pairwise_reduce_POSTS(0);
void  FN_s_add_disjunct(PS_T *x, const BOX_T *d) PRE_SX PRE(wf_d, d == &G_d && box_wf(d, G_id)) ASSIGNS(FRAME_S) FREES_S C_s_add_disjunct_POSTS(0);
void  FN_s_intersection(PS_T *x, const PS_T *y) PRE_SXY ASSIGNS(FRAME_S) FREES_S C_s_intersection_POSTS(0);
void  FN_s_topological_closure(PS_T *x) PRE_SX ASSIGNS(FRAME_S) FREES_S C_s_topological_closure_POSTS(0);
PS_T *FN_s_assign(PS_T *x, const PS_T *y) PRE_SXY ASSIGNS(FRAME_S) FREES_S C_s_assign_POSTS(0) POST(returns_receiver, RET == x);
_Bool FN_s_is_empty(const PS_T *x) PRE_SX ASSIGNS(FRAME_S) FREES_S C_s_is_empty_POSTS(RET);
_Bool FN_s_contains(const PS_T *x, const PS_T *y) PRE_SXY ASSIGNS(FRAME_S) FREES_S C_s_contains_POSTS(RET);
_Bool FN_s_is_disjoint_from(const PS_T *x, const PS_T *y) PRE_SXY ASSIGNS(FRAME_S) FREES_S C_s_is_disjoint_from_POSTS(RET);
#endif
#endif
