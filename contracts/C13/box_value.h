/* C13 contracts (boxes): copies are independent.  Box<ITV> copy construction, assignment and swap --
 * thin layers over std::vector<ITV>, extracted with the libstdc++ code they instantiate.
 *   copy     the new box has the same dimension, intervals and status as y, in storage of its own; y is unchanged
 *   assign   x gets y's intervals and status but keeps storage of its own (no sharing with y); y is unchanged
 *   swap     the two boxes exchange storage and status, nothing is copied or lost
 * "Storage of its own" is what makes later mutations of one box invisible through the other.
 * Abstract view and harness objects: ../C03/box_base.h.
 */
#ifndef VERIF_C13_BOX_VALUE_H
#define VERIF_C13_BOX_VALUE_H
#include "../C03/box_base.h"
extern BOX_T G_bz;                      /* raw storage for the copy */
extern ITV_T G_ys0[BOX_N];              /* entry copy of y's intervals */
extern uint32_t G_fy0v;
#define ITV_SAME(a, b) (ITV_BITS(a) == ITV_BITS(b) && ITV_LO(a) == ITV_LO(b) && ITV_HI(a) == ITV_HI(b))
SPEC int seq_same(const ITV_T *a, const ITV_T *b) { return ALLK(ITV_SAME(&a[0], &b[0]), ITV_SAME(&a[1], &b[1])); }
SPEC int y_unchanged(const BOX_T *y) { return BOX_BEGIN(y) == G_ys && BOX_END(y) == G_ys + BOX_D && BOX_FLAGS(y) == G_fy0v && seq_same(G_ys, G_ys0); }
#define C_b_copy_POSTS(R) \
  POST(same_dimension, BOX_END(z) - BOX_BEGIN(z) == BOX_D) \
  POST(same_value, BOX_FLAGS(z) == G_fy0v && (BOX_D == 0 || seq_same(BOX_BEGIN(z), G_ys0))) \
  POST(own_storage, BOX_D == 0 || (!__CPROVER_same_object(BOX_BEGIN(z), G_ys) && !__CPROVER_same_object(BOX_BEGIN(z), G_xs))) \
  POST(source_unchanged, y_unchanged(y))
#define C_b_assign_POSTS(R) \
  POST(same_dimension, BOX_END(x) - BOX_BEGIN(x) == BOX_D) \
  POST(same_value, BOX_FLAGS(x) == G_fy0v && (BOX_D == 0 || seq_same(BOX_BEGIN(x), G_ys0))) \
  POST(own_storage, BOX_D == 0 || !__CPROVER_same_object(BOX_BEGIN(x), G_ys)) \
  POST(source_unchanged, y_unchanged(y))
#define C_b_swap_POSTS(R) \
  POST(x_gets_y, BOX_BEGIN(x) == G_ys && BOX_END(x) == G_ys + BOX_D && BOX_FLAGS(x) == G_fy0v) \
  POST(y_gets_x, BOX_BEGIN(y) == G_xs && BOX_END(y) == G_xs + BOX_D && BOX_FLAGS(y) == G_fx0) \
  POST(nothing_copied, seq_same(G_ys, G_ys0) && seq_same(G_xs, G_xs0))
#if defined(VERIF_CBMC)
/* Box(const Box& y, Complexity_Class = ANY_COMPLEXITY): the complexity argument is ignored */
void FN_b_copy(BOX_T *z, const BOX_T *y, uint32_t complexity) PRE(raw, z == &G_bz) PRE(wf_y, y == &G_by && box_wf(y, G_ys))
  ASSIGNS(FRAME_B, __CPROVER_object_whole(&G_bz)) C_b_copy_POSTS(0);
BOX_T *FN_b_assign(BOX_T *x, const BOX_T *y) PRE(wf_x, x == &G_bx && box_wf(x, G_xs)) PRE(wf_y, y == &G_by && box_wf(y, G_ys))
  ASSIGNS(FRAME_B) C_b_assign_POSTS(0) POST(returns_receiver, RET == x);
void FN_b_swap(BOX_T *x, BOX_T *y) PRE(wf_x, x == &G_bx && box_wf(x, G_xs)) PRE(wf_y, y == &G_by && box_wf(y, G_ys))
  ASSIGNS(FRAME_B) C_b_swap_POSTS(0);
#endif
#endif
