/* C13 contracts (a): Determinate<PSET>, the copy-on-write handle that gives powerset disjuncts value
 * semantics (Determinate_inlines.hh).  No loops: every obligation is over the full domain.
 *
 * Abstract view.  A handle d denotes  val(d) = d.prep->pset.value.  A representation object (Rep)
 * carries `references'.  The harness owns two representation objects G_rep[0], G_rep[1] and three
 * handles G_x, G_y, G_z placed on them in the sharing pattern of the task (and x, y may be the SAME
 * object); `references' = (number of harness handles on it) + G_extra[] unknown other owners.
 * One more representation can be allocated by the operation (operator new -> G_rep[2]).
 *
 * Property C13 for this layer: after copy construction / assignment / swap / mutation, no operation on one
 * handle changes what any other handle denotes; an argument taken as const keeps its value; x.op(x) acts as
 * with an equal copy; self-assignment and self-swap are harmless; a representation is deleted exactly when
 * its last owner leaves, never while it is still referenced, never twice.
 */
#ifndef VERIF_C13_DETERMINATE_H
#define VERIF_C13_DETERMINATE_H
#include "../common/dual.h"
#if defined(VERIF_CBMC)
#define D_T   struct class_2eParma_Polyhedra_Library_3a_3aDeterminate
#define REP_T struct class_2eParma_Polyhedra_Library_3a_3aDeterminate_3cVSet_3e_3a_3aRep
#define VSET_T struct struct_2eVSet
REP_T G_rep[3];                 /* [2] is what operator new hands out */
D_T G_x, G_y, G_z;
uint64_t G_extra[2];            /* owners outside the harness */
int G_deleted[3];               /* how many times operator delete was called on each representation */
int G_new_calls;
/* entry snapshot (ghost) */
REP_T *G_px0, *G_py0, *G_pz0; uint64_t G_vx0, G_vy0, G_vz0, G_c0[3], G_v0[3]; uint64_t G_copies0, G_destroyed0;
SPEC uint64_t val(const D_T *d) { return d->f0->f1.f0; }
SPEC uint64_t owners(const REP_T *r) { return (uint64_t)(G_x.f0 == r) + (uint64_t)(&G_y != &G_x && G_y.f0 == r) + (uint64_t)(G_z.f0 == r); }
SPEC int idx_of(const REP_T *r) { return r == &G_rep[0] ? 0 : r == &G_rep[1] ? 1 : r == &G_rep[2] ? 2 : -1; }
/* representation invariant: every referenced representation has references = owners + extra >= 1, and
   a representation with a live owner has not been deleted */
SPEC int rep_inv(void) {
  for (int i = 0; i < 2; i++) {
    uint64_t o = owners(&G_rep[i]);
    if (G_deleted[i] > 1) return 0;
    if (o > 0 && (G_deleted[i] != 0 || G_rep[i].f0 != o + G_extra[i])) return 0;
  }
  if (owners(&G_rep[2]) > 0 && (G_deleted[2] != 0 || G_rep[2].f0 != owners(&G_rep[2]))) return 0;
  return idx_of(G_x.f0) >= 0 && idx_of(G_y.f0) >= 0 && idx_of(G_z.f0) >= 0;
}
#define FRAME __CPROVER_object_whole(G_rep), __CPROVER_object_whole(&G_x), __CPROVER_object_whole(&G_y), __CPROVER_object_whole(&G_z), \
  __CPROVER_object_whole(G_deleted), __CPROVER_object_whole(&G_new_calls), __CPROVER_object_whole(&G_copies), __CPROVER_object_whole(&G_destroyed), __CPROVER_object_whole(G_extra)
/* the third handle z (another owner, never an argument) is untouched and keeps its value */
SPEC int z_kept(void) { return G_z.f0 == G_pz0 && G_deleted[idx_of(G_pz0)] == 0 && val(&G_z) == G_vz0; }
/* an entry representation that lost an owner: count decreased by one, deleted exactly if that was the last one */
SPEC int released(int i, uint64_t by) {
  if (G_c0[i] == by) return G_deleted[i] == 1;
  return G_deleted[i] == 0 && G_rep[i].f0 == G_c0[i] - by && G_rep[i].f1.f0 == G_v0[i];
}
SPEC int untouched(int i) { return G_deleted[i] == 0 && G_rep[i].f0 == G_c0[i] && G_rep[i].f1.f0 == G_v0[i]; }
#define PRE_STATE PRE(inv, rep_inv()) PRE(small, G_extra[0] < 1000 && G_extra[1] < 1000)

/* Determinate(const Determinate& y) */
void FN_copy_ctor(D_T *to, const D_T *y)
  PRE_STATE PRE(args, to == &G_z && y == &G_y) ASSIGNS(FRAME)
  POST(shares, G_z.f0 == G_py0 && val(&G_z) == G_vy0)
  POST(counted, G_rep[idx_of(G_py0)].f0 == G_c0[idx_of(G_py0)] + 1 && G_deleted[idx_of(G_py0)] == 0)
  POST(y_kept, G_y.f0 == G_py0 && val(&G_y) == G_vy0)
  POST(other_rep_untouched, untouched(1 - idx_of(G_py0)))
  POST(no_copy_no_alloc, G_new_calls == 0 && G_copies == G_copies0);

/* ~Determinate() */
void FN_dtor(D_T *x)
  PRE_STATE PRE(args, x == &G_x) ASSIGNS(FRAME)
  POST(released, released(idx_of(G_px0), 1))
  POST(destroyed_iff_deleted, G_destroyed == G_destroyed0 + (uint64_t)G_deleted[idx_of(G_px0)])
  POST(other_rep_untouched, untouched(1 - idx_of(G_px0)))
  POST(others_keep_value, (G_pz0 == G_px0 && G_c0[idx_of(G_px0)] < 2) || z_kept());

/* operator=(const Determinate& y)   -- x and y may share a representation or be the same object */
D_T *FN_assign(D_T *x, const D_T *y)
  PRE_STATE PRE(args, x == &G_x && (y == &G_y || y == &G_x)) ASSIGNS(FRAME)
  POST(value, G_x.f0 == (y == &G_x ? G_px0 : G_py0) && val(&G_x) == (y == &G_x ? G_vx0 : G_vy0))
  POST(y_kept, y == &G_x || (G_y.f0 == G_py0 && val(&G_y) == G_vy0))
  POST(counts, (y == &G_x || G_py0 == G_px0) ? (untouched(0) && untouched(1))
               : (released(idx_of(G_px0), 1) && G_rep[idx_of(G_py0)].f0 == G_c0[idx_of(G_py0)] + 1 && G_deleted[idx_of(G_py0)] == 0))
  POST(others_keep_value, (G_pz0 == G_px0 && G_c0[idx_of(G_px0)] < 2) || z_kept())
  POST(returns_self, RET == x);

/* m_swap(y) */
void FN_m_swap(D_T *x, D_T *y)
  PRE_STATE PRE(args, x == &G_x && (y == &G_y || y == &G_x)) ASSIGNS(FRAME)
  POST(swapped, y == &G_x ? (G_x.f0 == G_px0) : (G_x.f0 == G_py0 && G_y.f0 == G_px0))
  POST(reps_untouched, untouched(0) && untouched(1))
  POST(others_keep_value, z_kept());

/* mutate(): afterwards x is the only owner of its representation, and denotes the same value */
void FN_mutate(D_T *x)
  PRE_STATE PRE(args, x == &G_x) ASSIGNS(FRAME)
  POST(value_kept, val(&G_x) == G_vx0)
  POST(unshared, G_x.f0->f0 == 1)
  POST(copy_on_write, G_c0[idx_of(G_px0)] > 1 ? (G_x.f0 == &G_rep[2] && G_new_calls == 1 && G_copies == G_copies0 + 1 && released(idx_of(G_px0), 1))
                                              : (G_x.f0 == G_px0 && G_new_calls == 0 && G_copies == G_copies0 && untouched(idx_of(G_px0))))
  POST(other_rep_untouched, untouched(1 - idx_of(G_px0)))
  POST(others_keep_value, z_kept() && (&G_y == &G_x || (G_y.f0 == G_py0 && val(&G_y) == G_vy0)));

/* the non-const pointset(): a reference through which only x can be changed */
VSET_T *FN_pointset(D_T *x)
  PRE_STATE PRE(args, x == &G_x) ASSIGNS(FRAME)
  POST(points_into_own_rep, RET == &G_x.f0->f1 && G_x.f0->f0 == 1 && val(&G_x) == G_vx0)
  POST(not_shared_with_others, G_z.f0 != G_x.f0 && G_y.f0 != G_x.f0 || (&G_y == &G_x && G_z.f0 != G_x.f0))
  POST(others_keep_value, z_kept());

/* a mutator taking a const argument: x.upper_bound_assign(y); y may share x's representation or be x itself */
SPEC uint64_t ub(uint64_t a, uint64_t b) { return a * 31 + b + 1; }     /* VSet::upper_bound_assign */
void FN_upper_bound_assign(D_T *x, const D_T *y)
  PRE_STATE PRE(args, x == &G_x && (y == &G_y || y == &G_x)) ASSIGNS(FRAME)
  POST(result_as_with_a_copy, val(&G_x) == ub(G_vx0, y == &G_x ? G_vx0 : G_vy0))
  POST(const_argument_kept, y == &G_x || (val(&G_y) == G_vy0 && G_deleted[idx_of(G_y.f0)] == 0))
  POST(others_keep_value, z_kept());

void d_snapshot(void) {
  G_px0 = G_x.f0; G_py0 = G_y.f0; G_pz0 = G_z.f0; G_vx0 = val(&G_x); G_vy0 = val(&G_y); G_vz0 = val(&G_z);
  for (int i = 0; i < 3; i++) { G_c0[i] = G_rep[i].f0; G_v0[i] = G_rep[i].f1.f0; G_deleted[i] = 0; }
  G_copies0 = G_copies; G_destroyed0 = G_destroyed; G_new_calls = 0;
}
#endif
#endif
