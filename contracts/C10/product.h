/* C10 contracts: Partially_Reduced_Product<Box<ITV>, Box<ITV>, R>, R = Smash_Reduction or No_Reduction.
 *
 * Abstract view: a product denotes the INTERSECTION of its two components,
 *        prod_sat(p) = box_sat(p.d1) && box_sat(p.d2)      (ghost point, near-standard coordinates).
 * Clauses, from the statement of C10:
 *   reduction     reduce() may shrink each component but leaves the intersection unchanged;
 *   transformers  the result's intersection contains the exact image of the arguments' intersections;
 *   predicates    a definite answer (empty, contains, disjoint, bounded) is true of the intersections;
 *   invariant     both components stay well-formed boxes of the same dimension (their storage may change:
 *                 the smash reduction swaps in a freshly built empty box).
 * BOUNDED in the space dimension (BOX_D <= 2).  Everything beneath -- the reduction, both Box components, the
 * Interval / Boundary / checked-number layers -- is the real code, inlined.
 */
#ifndef VERIF_C10_PRODUCT_H
#define VERIF_C10_PRODUCT_H
#include "../C03/box_base.h"
#define P_D1(p) (&(p)->f0)
#define P_D2(p) (&(p)->f1)
#define P_REDUCED(p) ((p)->f2)
extern PROD_T G_px, G_py;
extern ITV_T *G_x1s, *G_x2s, *G_y1s, *G_y2s;     /* interval storage of the four components (heap objects of the harness) */
extern int G_psatX0, G_psatY0, G_sat_x1_0, G_sat_x2_0, G_sat_y1_0, G_sat_y2_0;
SPEC int prod_wf_any(const PROD_T *p) { return box_wf_any(P_D1(p)) && box_wf_any(P_D2(p)) && P_REDUCED(p) <= 1; }
SPEC int prod_wf_entry(const PROD_T *p, const ITV_T *s1, const ITV_T *s2) { return box_wf(P_D1(p), s1) && box_wf(P_D2(p), s2) && P_REDUCED(p) <= 1; }
SPEC int prod_sat(const PROD_T *p) { return bsat(P_D1(p)) && bsat(P_D2(p)); }
/* the intersection is empty as a set: a component is, or some coordinate's two intervals do not meet */
SPEC int prod_empty(const PROD_T *p) {
  const BOX_T *a = P_D1(p), *b = P_D2(p);
  return box_empty(a, SEQ(a)) || box_empty(b, SEQ(b)) || ANYK(set_disjoint(&SEQ(a)[0], &SEQ(b)[0]), set_disjoint(&SEQ(a)[1], &SEQ(b)[1]));
}
SPEC int dim_bounded(const ITV_T *u, const ITV_T *v) { return (!lo_inf(u) || !lo_inf(v)) && (!hi_inf(u) || !hi_inf(v)); }
SPEC int prod_bounded(const PROD_T *p) {
  const BOX_T *a = P_D1(p), *b = P_D2(p);
  return prod_empty(p) || ALLK(dim_bounded(&SEQ(a)[0], &SEQ(b)[0]), dim_bounded(&SEQ(a)[1], &SEQ(b)[1]));
}

#define PKEEP_X POST(x_wf, prod_wf_any(x)) POST(x_keeps_its_points, !G_psatX0 || prod_sat(x))
#define PKEEP_Y POST(y_wf, prod_wf_any(y)) POST(y_keeps_its_points, !G_psatY0 || prod_sat(y))
/* clause tables: x, y are the operands (&G_px, &G_py), R the returned value */
/* reduce(): components may shrink, the intersection may not change */
#define C_p_reduce_POSTS(R) \
  POST(intersection_unchanged, prod_sat(x) == G_psatX0) \
  POST(components_only_shrink, (!bsat(P_D1(x)) || G_sat_x1_0) && (!bsat(P_D2(x)) || G_sat_x2_0)) \
  POST(x_wf, prod_wf_any(x))
#define C_p_is_empty_POSTS(R)          POST(definite, !(R) || !G_psatX0) PKEEP_X
#define C_p_is_bounded_POSTS(R)        POST(definite, !(R) || prod_bounded(x)) PKEEP_X
#define C_p_contains_POSTS(R)          POST(definite, !(R) || !G_psatY0 || G_psatX0) PKEEP_X PKEEP_Y
#define C_p_is_disjoint_from_POSTS(R)  POST(definite, !(R) || !(G_psatX0 && G_psatY0)) PKEEP_X PKEEP_Y
#define C_p_intersection_POSTS(R)      POST(contains_meet, !(G_psatX0 && G_psatY0) || prod_sat(x)) POST(x_wf, prod_wf_any(x)) PKEEP_Y
#define C_p_upper_bound_POSTS(R)       POST(contains_join, !(G_psatX0 || G_psatY0) || prod_sat(x)) POST(x_wf, prod_wf_any(x)) PKEEP_Y
#define C_p_upper_bound_if_exact_POSTS(R) \
  POST(contains_join_when_true, !(R) || !(G_psatX0 || G_psatY0) || prod_sat(x)) \
  POST(keeps_x_when_false, (R) || !G_psatX0 || prod_sat(x)) \
  POST(x_wf, prod_wf_any(x)) PKEEP_Y
#define C_p_difference_POSTS(R)        POST(contains_difference, !(G_psatX0 && !G_psatY0) || prod_sat(x)) POST(x_wf, prod_wf_any(x)) PKEEP_Y
#define C_p_topological_closure_POSTS(R) POST(contains_x, !G_psatX0 || prod_sat(x)) POST(x_wf, prod_wf_any(x))

#if defined(VERIF_CBMC)
#define FRAME_P __CPROVER_object_whole(&G_px), __CPROVER_object_whole(&G_py), __CPROVER_object_whole(G_x1s), __CPROVER_object_whole(G_x2s), __CPROVER_object_whole(G_y1s), __CPROVER_object_whole(G_y2s)
#define FREES_P FREES(G_x1s, G_x2s, G_y1s, G_y2s)
#define PRE_PX  PRE(wf_x, x == &G_px && prod_wf_entry(x, G_x1s, G_x2s)) PRE(point, pt_ok())
#define PRE_PXY PRE_PX PRE(wf_y, y == &G_py && prod_wf_entry(y, G_y1s, G_y2s))
#define PROD_PRED1(OP) _Bool FN_p_##OP(const PROD_T *x) PRE_PX ASSIGNS(FRAME_P) FREES_P C_p_##OP##_POSTS(RET);
#define PROD_PRED2(OP) _Bool FN_p_##OP(const PROD_T *x, const PROD_T *y) PRE_PXY ASSIGNS(FRAME_P) FREES_P C_p_##OP##_POSTS(RET);
#define PROD_MUT2(OP)  void FN_p_##OP(PROD_T *x, const PROD_T *y) PRE_PXY ASSIGNS(FRAME_P) FREES_P C_p_##OP##_POSTS(0);
PROD_PRED1(reduce) PROD_PRED1(is_empty) PROD_PRED1(is_bounded)
PROD_PRED2(contains) PROD_PRED2(is_disjoint_from)
PROD_MUT2(intersection) PROD_MUT2(upper_bound) PROD_MUT2(difference)
_Bool FN_p_upper_bound_if_exact(PROD_T *x, const PROD_T *y) PRE_PXY ASSIGNS(FRAME_P) FREES_P C_p_upper_bound_if_exact_POSTS(RET);
void FN_p_topological_closure(PROD_T *x) PRE_PX ASSIGNS(FRAME_P) FREES_P C_p_topological_closure_POSTS(0);
#endif
#endif
