/* C14 contracts (BD shapes, narrow): a dimension-incompatible call throws and leaves both shapes unchanged.
 * Same scheme as box_reject.h: `requires different space dimensions, ensures false' on the operation, and a checking
 * stub in place of the (cut) throw_dimension_incompatible helper asserting that both operands -- vector pointers,
 * row descriptors, every matrix cell, status word -- are bit-for-bit what they were at entry.
 * Harness objects: ../C03/bds.h (x has matrix order N, y has order N - 1).
 */
#ifndef VERIF_C14_BDS_REJECT_H
#define VERIF_C14_BDS_REJECT_H
#define BDS_NO_CONTRACTS 1
#include "../C03/bds.h"
#if defined(VERIF_CBMC)
shape_t G_X_entry, G_Y_entry;
SPEC int shape_same(const shape_t *a, const shape_t *b) {
  if (ROWS(&a->s) != ROWS(&b->s) || ROWS_END(&a->s) != ROWS_END(&b->s) || a->s.f0.f0.f0.f0.f0.f2 != b->s.f0.f0.f0.f0.f0.f2) return 0;
  if (a->s.f0.f1 != b->s.f0.f1 || a->s.f0.f2 != b->s.f0.f2 || FLAGS(&a->s) != FLAGS(&b->s)) return 0;
  for (int i = 0; i < N; i++) {
    if (a->rows[i].f0.f0 != b->rows[i].f0.f0 || a->blk[i].size != b->blk[i].size) return 0;
    for (int j = 0; j < N; j++) if (a->blk[i].v[j] != b->blk[i].v[j]) return 0;
  }
  return 1;
}
SPEC int c14_bds_unchanged(void) { return shape_same(&G_X, &G_X_entry) && shape_same(&G_Y, &G_Y_entry); }
/* assumed contract of the throw helper (trusted: it formats a message and throws std::invalid_argument) */
void FN_bds_throw_dim(const BDS_T *self, const uint8_t *method, const BDS_T *y) {
  __CPROVER_assert(c14_bds_unchanged(), "rejected call: every object involved is unchanged when the exception is thrown");
  __CPROVER_assert(0, "REACH the documented exception is thrown");
  __CPROVER_assume(0);
}
#define BDIM(b) ((uint64_t)(ROWS_END(b) - ROWS(b)))
#define PRE_BREJ PRE(objects, x == &G_X.s && y == &G_Y.s) PRE(dimension_incompatible, BDIM(x) != BDIM(y))
#define BREJ_PRED2(OP) _Bool FN_##OP(const BDS_T *x, const BDS_T *y) PRE_BREJ ASSIGNS(FRAME_XY) POST(never_returns_normally, 0);
#define BREJ_MUT2(OP)  void FN_##OP(BDS_T *x, const BDS_T *y) PRE_BREJ ASSIGNS(FRAME_XY) POST(never_returns_normally, 0);
BREJ_MUT2(intersection)
BREJ_PRED2(contains) BREJ_PRED2(strictly_contains) BREJ_PRED2(is_disjoint_from)
#endif
#endif
