/* C14 contracts (boxes, narrow): a call whose arguments violate the documented dimension precondition throws
 * and leaves every object involved unchanged.
 *   contract on each operation:  requires the two boxes to have DIFFERENT space dimensions (or the variable to lie
 *   outside the box); ensures false -- the function never returns normally;
 *   at the throw site: the cut throw_dimension_incompatible() helpers (which only build a message and throw
 *   std::invalid_argument) are replaced by a stub that ASSERTS that both operands are bit-for-bit what they were
 *   at entry, and then leaves exceptionally.
 * Abstract view / harness objects: ../C03/box_base.h; x has dimension BOX_D, y has dimension BOX_DY != BOX_D.
 */
#ifndef VERIF_C14_BOX_REJECT_H
#define VERIF_C14_BOX_REJECT_H
#include "../C03/box_base.h"
extern BOX_T G_bx_entry, G_by_entry; extern ITV_T G_xs_entry[BOX_N], G_ys_entry[BOX_N];
#define ITV_SAME(a, b) (ITV_BITS(a) == ITV_BITS(b) && ITV_LO(a) == ITV_LO(b) && ITV_HI(a) == ITV_HI(b))
SPEC int box_bits_same(const BOX_T *a, const BOX_T *b) { return BOX_BEGIN(a) == BOX_BEGIN(b) && BOX_END(a) == BOX_END(b) && BOX_CAP(a) == BOX_CAP(b) && BOX_FLAGS(a) == BOX_FLAGS(b); }
SPEC int c14_unchanged(void) {
  return box_bits_same(&G_bx, &G_bx_entry) && box_bits_same(&G_by, &G_by_entry)
      && ITV_SAME(&G_xs[0], &G_xs_entry[0]) && ITV_SAME(&G_xs[1], &G_xs_entry[1]) && ITV_SAME(&G_ys[0], &G_ys_entry[0]) && ITV_SAME(&G_ys[1], &G_ys_entry[1]);
}
/* native replay: the real call is made inside try / catch; THREW records whether std::invalid_argument came out */
#define C_reject_POSTS(THREW) \
  POST(never_returns_normally, (THREW)) \
  POST(every_object_unchanged, c14_unchanged())
#if defined(VERIF_CBMC)
/* assumed contract of the two throw helpers (trusted: they format a message and throw std::invalid_argument) */
void FN_b_throw_dim_box(const BOX_T *self, const uint8_t *method, const BOX_T *y) {
  __CPROVER_assert(c14_unchanged(), "rejected call: every object involved is unchanged when the exception is thrown");
  __CPROVER_assert(0, "REACH the documented exception is thrown");
  __CPROVER_assume(0);
}
void FN_b_throw_dim_n(const BOX_T *self, const uint8_t *method, uint64_t required_dim) {
  __CPROVER_assert(c14_unchanged(), "rejected call: every object involved is unchanged when the exception is thrown");
  __CPROVER_assert(0, "REACH the documented exception is thrown");
  __CPROVER_assume(0);
}
#define DIM(b) ((uint64_t)(BOX_END(b) - BOX_BEGIN(b)))
#define PRE_REJECT PRE(objects, x == &G_bx && y == &G_by) PRE(dimension_incompatible, DIM(x) != DIM(y))
#define REJ_PRED2(OP) _Bool FN_b_##OP(const BOX_T *x, const BOX_T *y) PRE_REJECT ASSIGNS(FRAME_B) POST(never_returns_normally, 0);
#define REJ_MUT2(OP)  void FN_b_##OP(BOX_T *x, const BOX_T *y) PRE_REJECT ASSIGNS(FRAME_B) POST(never_returns_normally, 0);
REJ_PRED2(contains) REJ_PRED2(strictly_contains) REJ_PRED2(is_disjoint_from)
REJ_MUT2(intersection) REJ_MUT2(upper_bound) REJ_MUT2(difference)
_Bool FN_b_upper_bound_if_exact(BOX_T *x, const BOX_T *y) PRE_REJECT ASSIGNS(FRAME_B) POST(never_returns_normally, 0);
void FN_b_unconstrain(BOX_T *x, uint64_t v) PRE(objects, x == &G_bx) PRE(variable_outside_the_box, v >= DIM(x) && v < ((uint64_t)1 << 40)) ASSIGNS(FRAME_B) POST(never_returns_normally, 0);
void FN_b_cc76(BOX_T *x, const BOX_T *y, uint32_t *tp) PRE_REJECT PRE(tokens, tp == 0) ASSIGNS(FRAME_B) POST(never_returns_normally, 0);
#endif
#endif
