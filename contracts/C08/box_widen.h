/* C08 contract (boxes): Box<ITV>::CC76_widening_assign(y, tp) -- the loop over the interval step, the
 * emptiness shortcut and the token protocol -- on top of the interval contract of interval_widen.h.
 *
 * Clauses, from the statement of C08 (x is the larger argument, y <= x):
 *   upper_bound        the result is a superset of x;
 *   certificate        (no tokens) the convergence certificate of the result is at most that of y, and strictly
 *                      smaller when the result differs from y (y non-empty); the certificate of a box is the sum
 *                      of the interval certificates of interval_widen.h, over the REAL stop-point table of the
 *                      function (only assumed sorted);
 *   token protocol     with tokens available the object is left unchanged, and a token is consumed exactly when
 *                      plain widening would lose precision -- the plain result is the one the same real function
 *                      produced on the same operands without tokens (recorded by the harness in G_plain_changed).
 * Abstract view and harness objects: ../C03/box_base.h.
 */
#ifndef VERIF_C08_BOX_WIDEN_H
#define VERIF_C08_BOX_WIDEN_H
#include "../C03/box_base.h"
#if defined(VERIF_NATIVE)
/* the function's own static table, by its linker name (an assembler-level alias: the table is defined in this
   same translation unit, so a second C declaration with an asm label would clash with it) */
__asm__(".set real_box_stops, " VSTR(BOX_STOPS));
extern "C" T_u real_box_stops[5];
# define STOPS real_box_stops
# define NSTOP 5u
#else
# define STOPS ((const T_u *)&BOX_STOPS)      /* the function's own static table (ll2c wraps arrays in a struct) */
# define NSTOP ((uint32_t)(sizeof(BOX_STOPS) / sizeof(T_u)))
#endif
#include "interval_widen.h"
extern uint32_t G_tokens, G_tokens0; extern int G_plain_changed; extern uint32_t G_fy0;
SPEC int box_contains_sets(void) { return G_emptyY0 || (!G_emptyX0 && ALLK(set_contains(&G_xs[0], &G_ys[0]), set_contains(&G_xs[1], &G_ys[1]))); }
SPEC int box_cert_le(void) { return ALLK(cert_u(&G_xs[0]) <= cert_u(&G_ys[0]) && cert_l(&G_xs[0]) <= cert_l(&G_ys[0]), cert_u(&G_xs[1]) <= cert_u(&G_ys[1]) && cert_l(&G_xs[1]) <= cert_l(&G_ys[1])); }
SPEC int box_cert(const ITV_T *seq) { return (BOX_D >= 1 ? cert(&seq[0]) : 0) + (BOX_D >= 2 ? cert(&seq[1]) : 0); }
SPEC int box_same_as_entry(const BOX_T *x) {     /* same point set as at entry */
  return G_emptyX0 ? box_empty(x, G_xs) : (!box_empty(x, G_xs) && ALLK(set_eq(&G_xs[0], &G_xs0[0]), set_eq(&G_xs[1], &G_xs0[1])));
}
SPEC int box_untouched(const BOX_T *x) {         /* representation unchanged (intervals of a box marked empty are meaningless) */
  return BOX_FLAGS(x) == G_fx0 && (b_marked_empty(x) || ALLK(ITV_BITS(&G_xs[0]) == ITV_BITS(&G_xs0[0]) && ITV_LO(&G_xs[0]) == ITV_LO(&G_xs0[0]) && ITV_HI(&G_xs[0]) == ITV_HI(&G_xs0[0]),
                                                             ITV_BITS(&G_xs[1]) == ITV_BITS(&G_xs0[1]) && ITV_LO(&G_xs[1]) == ITV_LO(&G_xs0[1]) && ITV_HI(&G_xs[1]) == ITV_HI(&G_xs0[1])));
}
#define C_b_cc76_POSTS(R) \
  POST(upper_bound, !G_satX0 || box_sat(x, G_xs)) \
  POST(x_wf, box_wf(x, G_xs)) POST(y_wf, box_wf(y, G_ys)) POST(y_keeps_its_points, !G_satY0 || box_sat(y, G_ys)) \
  POST(certificate_never_grows, (tp != 0 && G_tokens0 > 0) || G_emptyY0 || box_cert_le()) \
  POST(non_stationary_step_decreases_certificate, (tp != 0 && G_tokens0 > 0) || G_emptyY0 \
       || (ALLK(set_eq(&G_xs[0], &G_ys[0]), set_eq(&G_xs[1], &G_ys[1])) || box_cert(G_xs) < box_cert(G_ys))) \
  POST(tokens_object_unchanged, !(tp != 0 && G_tokens0 > 0) || box_same_as_entry(x)) \
  POST(token_consumed_iff_plain_widening_loses_precision, !(tp != 0 && G_tokens0 > 0) || G_tokens == G_tokens0 - (G_plain_changed ? 1u : 0u)) \
  POST(no_tokens_no_change_of_count, (tp != 0 && G_tokens0 > 0) || G_tokens == G_tokens0)
#if defined(VERIF_CBMC)
#define CC76_BOX_CONTRACT(FN) void FN(BOX_T *x, const BOX_T *y, uint32_t *tp) \
  PRE_BXY PRE(y_in_x, box_contains_sets()) PRE(stop_points_sorted, NSTOP == ST_N && stops_sorted()) \
  PRE(tokens, tp == 0 || tp == &G_tokens) \
  ASSIGNS(FRAME_B, G_tokens) C_b_cc76_POSTS(0);
CC76_BOX_CONTRACT(FN_b_cc76)
/* The same contract on the single-call extern "C" wrapper of the unit: goto-instrument --dfcc refuses an enforced
   function that calls itself, and CC76_widening_assign(y, tp) does (on a copy, without tokens) when tokens are
   available.  The token task therefore enforces the contract one call level up; everything beneath is the real code. */
CC76_BOX_CONTRACT(w_b_cc76)
#endif
#endif
