/* C08 contracts (interval layer): Interval<B, Info>::CC76_widening_assign(y, first, last), the per-dimension
 * step of Box::CC76_widening_assign.
 *
 * Clauses, from the statement of C08:
 *   upper_bound   the result is a superset of the larger argument (the receiver, which contains y);
 *   certificate   along a chain y <= x -> x' = widen(x, y) the convergence certificate never grows and
 *                 strictly decreases on every non-stationary step (x' != y).
 * The certificate is ghost: for each bound, the number of stop points strictly beyond it, doubled, plus one
 * while the bound is finite, minus one when it is closed rather than open; 0 for an infinite bound.  It is a natural
 * number bounded by 4 * (ST_N + 1), so a strictly decreasing chain is finite.
 */
#ifndef VERIF_C08_INTERVAL_WIDEN_H
#define VERIF_C08_INTERVAL_WIDEN_H
#include "../C12/interval.h"
#define ST_N 5
#ifndef STOPS
extern T_u G_stop[ST_N]; extern uint32_t G_nstop;   /* harness-owned stop points */
# define STOPS G_stop
# define NSTOP G_nstop
#endif
#define STV(k) x_num(STOPS[k])
SPEC int stops_sorted(void) {
  return (NSTOP < 2 || STV(0) <= STV(1)) && (NSTOP < 3 || STV(1) <= STV(2)) && (NSTOP < 4 || STV(2) <= STV(3)) && (NSTOP < 5 || STV(3) <= STV(4));
}
SPEC int n_above(ex_t v) {
  return (NSTOP > 0 && STV(0) > v) + (NSTOP > 1 && STV(1) > v) + (NSTOP > 2 && STV(2) > v) + (NSTOP > 3 && STV(3) > v) + (NSTOP > 4 && STV(4) > v);
}
SPEC int n_below(ex_t v) {
  return (NSTOP > 0 && STV(0) < v) + (NSTOP > 1 && STV(1) < v) + (NSTOP > 2 && STV(2) < v) + (NSTOP > 3 && STV(3) < v) + (NSTOP > 4 && STV(4) < v);
}
SPEC int cert_u(const ITV_T *x) { return hi_inf(x) ? 0 : 2 * (1 + n_above(hi(x))) - (hi_open(x) ? 0 : 1); }
SPEC int cert_l(const ITV_T *x) { return lo_inf(x) ? 0 : 2 * (1 + n_below(lo(x))) - (lo_open(x) ? 0 : 1); }
SPEC int cert(const ITV_T *x) { return cert_u(x) + cert_l(x); }

#define C_cc76_POSTS(X, X0, Y) \
  POST(wf, WF(X)) \
  POST(upper_bound, !(GHOST_OK && mem(X0, GA)) || mem(X, GA)) \
  POST(certificate_never_grows, cert_u(X) <= cert_u(Y) && cert_l(X) <= cert_l(Y)) \
  POST(non_stationary_step_decreases_certificate, set_eq(X, Y) || cert(X) < cert(Y))

#if defined(VERIF_CBMC) && defined(FN_cc76)
void FN_cc76(ITV_T *x, const ITV_T *y, const T_u *first, const T_u *last)
  PRE(wf_x, WF(x)) PRE(wf_y, WF(y)) PRE(y_nonempty, !is_empty_set(y)) PRE(x_contains_y, set_contains(x, y))
  PRE(stop_points, first == G_stop && last == G_stop + G_nstop && G_nstop <= ST_N && stops_sorted())
  ASSIGNS(*x)
  C_cc76_POSTS(x, OLD_ITV(x), y);
#endif
#endif
