/* C08 contract (BD shapes): BD_Shape<T>::CC76_extrapolation_assign(y, first, last, tp = 0) over a native integer
 * type -- the upper-bound clause only: the result contains every point of the larger argument (the receiver).
 * The stop points are a harness array of at most 3 matrix-entry values in ascending order.
 * Abstract view, harness objects and the shape invariant: ../C03/bds.h.
 */
#ifndef VERIF_C08_BDS_WIDEN_H
#define VERIF_C08_BDS_WIDEN_H
#include "../C03/bds.h"
#if defined(VERIF_CBMC)
#define BST_N 3
T_u G_bstop[BST_N]; uint32_t G_nbstop;
SPEC int bstops_ok(void) {
  for (int k = 0; k < BST_N; k++) if ((uint32_t)k < G_nbstop) {
    if (!(x_cls(G_bstop[k]) == CLS_FIN && x_in_range(G_bstop[k]))) return 0;
    if (k > 0 && !(x_num(G_bstop[k - 1]) <= x_num(G_bstop[k]))) return 0;
  }
  return 1;
}
#define CN_T struct class_2eParma_Polyhedra_Library_3a_3aChecked_Number     /* Checked_Number<T, WRD>: one field, the raw value */
void FN_cc76(BDS_T *x, const BDS_T *y, const CN_T *first, const CN_T *last, uint32_t *tp) PRE_XY
  PRE(stop_points, (const void *)first == (const void *)G_bstop && (const void *)last == (const void *)(G_bstop + G_nbstop) && G_nbstop <= BST_N && bstops_ok())
  PRE(no_tokens, tp == 0)
  ASSIGNS(FRAME_XY)
  POST(upper_bound, !G_satX0 || sat(x)) POST(y_kept, !G_satY0 || sat(y));
#endif
#endif
