/* C11 spec -- the meaning of a checked-number result, independent of the code.
 *
 * Parameters (set per task by the driver / the unit):
 *   T_W, T_SIGNED                  native type under test (width in bits, signedness)
 *   ENC_PINF ENC_MINF ENC_NAN      the policy's encodings of +inf, -inf, NaN         } read from the
 *   ENC_MIN  ENC_MAX               least / greatest finite value of the policy       } code itself
 *   POL_HAS_NAN POL_HAS_INF        policy switches                                   } (unit exports)
 * so that a consistent re-encoding is not an alarm; enc_sane() pins what any
 * encoding must satisfy.
 *
 * The postconditions are taken from property C11 and the documentation of
 * Result / Rounding_Dir (Result_defs.hh, Rounding_Dir_defs.hh):
 *   post_rel    : the relation claimed by the result code between the exact
 *                 mathematical result and the value stored is TRUE; the value
 *                 class named by the code is the class of what was stored;
 *                 V_UNREPRESENTABLE means nothing was stored; an overflow bit
 *                 is only raised on a genuine overflow; an undefined exact
 *                 result (x/0, inf-inf, sqrt(<0), NaN operand) is reported NaN.
 *   post_dir    : ROUND_UP never yields a value below the exact result,
 *                 ROUND_DOWN never above.
 *   post_strict : with ROUND_STRICT_RELATION and a directed rounding the
 *                 relation reported is one of =, <, >.
 *   post_tight  : (used by C12, whose statement demands exactness for exact
 *                 bound types) an exactly representable result is stored
 *                 exactly and reported V_EQ.
 */
#ifndef VERIF_C11_SPEC_H
#define VERIF_C11_SPEC_H
#include "../common/dual.h"

#if T_W == 8
typedef uint8_t T_u;  typedef int8_t T_s;
#elif T_W == 16
typedef uint16_t T_u; typedef int16_t T_s;
#elif T_W == 32
typedef uint32_t T_u; typedef int32_t T_s;
#elif T_W == 64
typedef uint64_t T_u; typedef int64_t T_s;
#else
# error "T_W must be 8, 16, 32 or 64"
#endif

/* exact arithmetic is carried out in a type at least twice as wide */
#if T_W == 8
typedef int32_t ex_t;
# define EX_W 32
#elif T_W == 16
typedef int64_t ex_t;
# define EX_W 64
#else
typedef __int128 ex_t;
# define EX_W 128
#endif

/* result codes (Result_defs.hh) */
#define V_EQ 1u
#define V_LT 2u
#define V_GT 4u
#define V_LGE 7u
#define VC_NORMAL 0x00u
#define VC_MINUS_INFINITY 0x10u
#define VC_PLUS_INFINITY 0x20u
#define VC_NAN 0x30u
#define V_OVERFLOW 0x40u
#define V_UNREPRESENTABLE 0x80u
#define V_UNKNOWN_NEG_OVERFLOW (0x30u | (10u << 8))
#define V_UNKNOWN_POS_OVERFLOW (0x30u | (11u << 8))

/* rounding directions (Rounding_Dir_defs.hh) */
#define DIR_DOWN 0u
#define DIR_UP 1u
#define DIR_IGNORE 6u
#define DIR_NOT_NEEDED 7u
#define DIR_STRICT 8u
SPEC int dir_valid(uint32_t d) { return d < 16u && ((d & 7u) == DIR_DOWN || (d & 7u) == DIR_UP || (d & 7u) == DIR_IGNORE || (d & 7u) == DIR_NOT_NEEDED); }
SPEC int dir_up(uint32_t d) { return (d & 7u) == DIR_UP; }
SPEC int dir_down(uint32_t d) { return (d & 7u) == DIR_DOWN; }

/* value classes */
#define CLS_FIN 0
#define CLS_PINF 1
#define CLS_MINF 2
#define CLS_NAN 3

SPEC ex_t x_num(T_u v) { return T_SIGNED ? (ex_t)(T_s)v : (ex_t)v; }
SPEC int x_cls(T_u v) {
  if (POL_HAS_NAN && v == ENC_NAN) return CLS_NAN;
  if (POL_HAS_INF && v == ENC_PINF) return CLS_PINF;
  if (POL_HAS_INF && v == ENC_MINF) return CLS_MINF;
  return CLS_FIN;
}
SPEC int x_fin(T_u v) { return x_cls(v) == CLS_FIN; }
#define EMIN x_num(ENC_MIN)
#define EMAX x_num(ENC_MAX)
/* a finite value handed to the native layer lies in the policy's finite range */
SPEC int x_in_range(T_u v) { return x_fin(v) && x_num(v) >= EMIN && x_num(v) <= EMAX; }

/* what every encoding must satisfy */
SPEC int enc_sane(void) {
  if (!(EMIN <= 0 && 0 < EMAX)) return 0;
  if (POL_HAS_INF && (ENC_PINF == ENC_MINF)) return 0;
  if (POL_HAS_INF && !(x_num(ENC_PINF) > EMAX || x_num(ENC_PINF) < EMIN)) return 0;
  if (POL_HAS_INF && !(x_num(ENC_MINF) > EMAX || x_num(ENC_MINF) < EMIN)) return 0;
  if (POL_HAS_NAN && !(x_num(ENC_NAN) > EMAX || x_num(ENC_NAN) < EMIN)) return 0;
  if (POL_HAS_NAN && POL_HAS_INF && (ENC_NAN == ENC_PINF || ENC_NAN == ENC_MINF)) return 0;
  return 1;
}

SPEC int sgn_ex(ex_t a) { return a < 0 ? -1 : (a > 0 ? 1 : 0); }
SPEC int cmp_ex(ex_t a, ex_t b) { return a < b ? -1 : (a > b ? 1 : 0); }

/* class named by the value-class part of a result code */
SPEC int r_cls(uint32_t r) {
  uint32_t c = r & 0x30u;
  return c == VC_NORMAL ? CLS_FIN : c == VC_PLUS_INFINITY ? CLS_PINF : c == VC_MINUS_INFINITY ? CLS_MINF : CLS_NAN;
}

/* k = sign(exact - S) in the extended reals, S being the value the code talks about
   (the stored one, or the one named by an UNREPRESENTABLE code).
   ecls: class of the exact result; c: sign(exact - num(to_new)) when both are finite. */
SPEC int k_of(int ecls, int c, int scls) {
  if (scls == CLS_PINF) return ecls == CLS_PINF ? 0 : -1;
  if (scls == CLS_MINF) return ecls == CLS_MINF ? 0 : 1;
  return ecls == CLS_PINF ? 1 : ecls == CLS_MINF ? -1 : c;
}
SPEC int s_cls(uint32_t r, T_u to_new) { return ((r & V_UNREPRESENTABLE) || (r_cls(r) == CLS_NAN && !POL_HAS_NAN)) ? r_cls(r) : x_cls(to_new); }

/* c_min = sign(exact - EMIN), c_max = sign(exact - EMAX) (finite exact only).
   allow_unknown: the operation is documented to give up with V_UNKNOWN_*_OVERFLOW (fused multiply-add/sub). */
SPEC int post_rel(uint32_t r, int ecls, int c, int c_min, int c_max, T_u to_new, T_u to_old, int allow_unknown) {
  uint32_t rel = r & 7u;
  int unrep = (r & V_UNREPRESENTABLE) != 0, ovf = (r & V_OVERFLOW) != 0;
  int scls = s_cls(r, to_new);
  if (r >= 0x1000u) return 0;
  if (unrep) {
    if (to_new != to_old) return 0;                 /* nothing may have been stored */
    if (scls == CLS_FIN) return 0;                  /* only specials can be unrepresentable */
    if (scls == CLS_NAN ? POL_HAS_NAN : POL_HAS_INF) return 0;  /* ... and only when the policy lacks them */
  }
  else if (r_cls(r) == CLS_NAN && !POL_HAS_NAN) {   /* NaN outcome under a policy without NaN: nothing stored */
    if (to_new != to_old) return 0;
    scls = CLS_NAN;
  }
  else if (r_cls(r) != scls) return 0;              /* class in the code == class of what was stored */
  if (scls == CLS_NAN) {
    if (ecls == CLS_NAN) return 1;
    return allow_unknown && ((r & ~0xC0u) == V_UNKNOWN_NEG_OVERFLOW || (r & ~0xC0u) == V_UNKNOWN_POS_OVERFLOW);
  }
  if (ecls == CLS_NAN) return 0;                    /* undefined results must be classified NaN */
  {
    int k = k_of(ecls, c, scls);
    if (k < 0 && !(rel & V_LT)) return 0;
    if (k == 0 && !(rel & V_EQ)) return 0;
    if (k > 0 && !(rel & V_GT)) return 0;
  }
  if (ovf) {
    if (scls != CLS_FIN) return 0;
    if (rel == V_LT) { if (!(to_new == ENC_MIN && (ecls == CLS_MINF || (ecls == CLS_FIN && c_min < 0)))) return 0; }
    else if (rel == V_GT) { if (!(to_new == ENC_MAX && (ecls == CLS_PINF || (ecls == CLS_FIN && c_max > 0)))) return 0; }
    else return 0;
  }
  /* a finite stored value is a legal finite value of the policy */
  if (!unrep && scls == CLS_FIN && !(x_num(to_new) >= EMIN && x_num(to_new) <= EMAX)) return 0;
  return 1;
}

SPEC int post_dir(uint32_t r, uint32_t dir, int ecls, int c, T_u to_new) {
  int scls = s_cls(r, to_new);
  if ((r & V_UNREPRESENTABLE) || scls == CLS_NAN || ecls == CLS_NAN) return 1;
  {
    int k = k_of(ecls, c, scls);
    if (dir_up(dir) && k > 0) return 0;       /* stored below the exact result */
    if (dir_down(dir) && k < 0) return 0;     /* stored above the exact result */
  }
  return 1;
}

SPEC int post_strict(uint32_t r, uint32_t dir, T_u to_new) {
  uint32_t rel = r & 7u;
  if (!(dir & DIR_STRICT) || !(dir_up(dir) || dir_down(dir))) return 1;
  if (s_cls(r, to_new) == CLS_NAN) return 1;
  return rel == V_EQ || rel == V_LT || rel == V_GT;
}

/* exactly representable integer result e: stored exactly, reported V_EQ */
SPEC int post_tight(uint32_t r, int ecls, int e_is_int, ex_t e, T_u to_new) {
  if (ecls == CLS_FIN) {
    if (e_is_int && e >= EMIN && e <= EMAX) return r == V_EQ && x_fin(to_new) && x_num(to_new) == e;
    return 1;
  }
  if (ecls == CLS_PINF && POL_HAS_INF) return r == (V_EQ | VC_PLUS_INFINITY) && x_cls(to_new) == CLS_PINF;
  if (ecls == CLS_MINF && POL_HAS_INF) return r == (V_EQ | VC_MINUS_INFINITY) && x_cls(to_new) == CLS_MINF;
  return 1;
}

/* overflow of a finite exact result is reported as such (functional form used by callers' proofs):
   rounding towards the overflow side stores the infinity (or reports it unrepresentable),
   rounding away from it saturates at the extreme finite value with the overflow bit */
SPEC int post_ovf(uint32_t r, uint32_t dir, int ecls, int c_min, int c_max, T_u to_new) {
  if (ecls != CLS_FIN) return 1;
  if (c_max > 0) {
    if (dir_down(dir)) return r == (V_GT | V_OVERFLOW) && to_new == ENC_MAX;
    return POL_HAS_INF ? (r == (V_LT | VC_PLUS_INFINITY) && x_cls(to_new) == CLS_PINF) : (r == (V_LT | VC_PLUS_INFINITY | V_UNREPRESENTABLE));
  }
  if (c_min < 0) {
    if (dir_up(dir)) return r == (V_LT | V_OVERFLOW) && to_new == ENC_MIN;
    return POL_HAS_INF ? (r == (V_GT | VC_MINUS_INFINITY) && x_cls(to_new) == CLS_MINF) : (r == (V_GT | VC_MINUS_INFINITY | V_UNREPRESENTABLE));
  }
  return 1;
}
#endif
