/* C11 contracts on the checked-number primitives for a native integer type T
 * under a policy P (unit: units/C11/checked_int.cc).
 *
 *   FN_<op>      = Checked::<op><P,P[,P]>(T& to, const T& x, [const T& y | unsigned exp,] Rounding_Dir)
 *                  -- the native layer: operands are finite values of the policy
 *   FN_<op>_ext  = Checked::<op>_ext<...>  -- the extended layer: operands may be +inf, -inf, NaN
 *
 * Every contract has the same shape:
 *   requires  the operands are what the call sites guarantee (finite for the
 *             native layer; no combination that the policy declares unchecked:
 *             inf-inf, x/0, inf/inf, sqrt(<0), inf mod y) and a legal Rounding_Dir
 *   assigns   *to only   (operands are read through their ENTRY values, OLD(*x): the same contract is
 *             enforced when the arguments alias -- to == x, to == y, x == y -- by check C13)
 *   ensures   post_rel, post_dir, post_strict of spec.h against the exact result,
 *             described by  ecls_<op> (class: finite / +inf / -inf / undefined)
 *             and either e_<op> (an integer) or c_<op>(.., t) = sign(exact - t).
 *   With WITH_TIGHT (C12's use of these contracts) also post_tight / post_ovf.
 */
#ifndef VERIF_C11_OPS_H
#define VERIF_C11_OPS_H
#include "spec.h"

#define POSTS_SEM(R, TO, TO0, DIR, ECLS, C, CMIN, CMAX, UNK) \
  POST(rel,    post_rel(R, ECLS, C, CMIN, CMAX, TO, TO0, UNK)) \
  POST(dir,    post_dir(R, DIR, ECLS, C, TO)) \
  POST(strict, post_strict(R, DIR, TO))
#ifdef WITH_TIGHT
# define POSTS_TIGHT(R, TO, DIR, ECLS, E) \
  POST(tight, post_tight(R, ECLS, 1, E, TO)) \
  POST(ovf,   post_ovf(R, DIR, ECLS, cmp_ex(E, EMIN), cmp_ex(E, EMAX), TO))
#else
# define POSTS_TIGHT(R, TO, DIR, ECLS, E)
#endif
/* operations whose exact result is an integer E (when ECLS says finite) */
#define POSTS_INT(R, TO, TO0, DIR, ECLS, E, UNK) \
  POSTS_SEM(R, TO, TO0, DIR, ECLS, cmp_ex(E, x_num(TO)), cmp_ex(E, EMIN), cmp_ex(E, EMAX), UNK) \
  POSTS_TIGHT(R, TO, DIR, ECLS, E)

SPEC int is_inf(int c) { return c == CLS_PINF || c == CLS_MINF; }
SPEC int flip(int c) { return c == CLS_PINF ? CLS_MINF : c == CLS_MINF ? CLS_PINF : c; }
SPEC ex_t pow2(uint32_t e) { return (ex_t)1 << e; }      /* callers keep e < EX_W - 1 */

/* ------------------------------------------------------------------ unary */
SPEC int ecls_id(T_u x) { return x_cls(x); }
SPEC ex_t e_id(T_u x) { return x_num(x); }
SPEC int ecls_neg(T_u x) { return flip(x_cls(x)); }
SPEC ex_t e_neg(T_u x) { return -x_num(x); }
SPEC int ecls_abs(T_u x) { return is_inf(x_cls(x)) ? CLS_PINF : x_cls(x); }
SPEC ex_t e_abs(T_u x) { return x_num(x) < 0 ? -x_num(x) : x_num(x); }
/* sqrt: undefined below zero; exact = real square root, compared by squaring */
SPEC int ecls_sqrt(T_u x) { int c = x_cls(x); return c == CLS_MINF ? CLS_NAN : (c == CLS_FIN && x_num(x) < 0) ? CLS_NAN : c; }
SPEC int c_sqrt(T_u x, ex_t t) { return t < 0 ? 1 : sgn_ex(x_num(x) - t * t); }

#define UNARY_INT(OP, ECLS, E, PREX) \
  uint32_t FN_##OP(T_u *to, const T_u *x, uint32_t dir) \
  PRE(dir, dir_valid(dir)) PRE(operand, PREX) ASSIGNS(*to) \
  POSTS_INT(RET, *to, OLD(*to), dir, ECLS(*x), E(*x), 0);

#define NATIVE_UNARY_POST_INT(ECLS, E) POSTS_INT(r, to, to_old, dir, ECLS(x), E(x), 0)
#define NATIVE_UNARY_PRE(PREX) PRE(dir, dir_valid(dir)) PRE(operand, PREX)

/* ------------------------------------------------------------------ binary */
SPEC int ecls_add(T_u x, T_u y) {
  int a = x_cls(x), b = x_cls(y);
  if (a == CLS_NAN || b == CLS_NAN) return CLS_NAN;
  if (is_inf(a) && is_inf(b)) return a == b ? a : CLS_NAN;
  return is_inf(a) ? a : b;           /* b is finite or the only infinity */
}
SPEC ex_t e_add(T_u x, T_u y) { return x_num(x) + x_num(y); }
SPEC int ecls_sub(T_u x, T_u y) {
  int a = x_cls(x), b = flip(x_cls(y));
  if (a == CLS_NAN || b == CLS_NAN) return CLS_NAN;
  if (is_inf(a) && is_inf(b)) return a == b ? a : CLS_NAN;
  return is_inf(a) ? a : b;
}
SPEC ex_t e_sub(T_u x, T_u y) { return x_num(x) - x_num(y); }
/* sign of an extended value: -1, 0, 1 */
SPEC int x_sgn(T_u v) { int c = x_cls(v); return c == CLS_PINF ? 1 : c == CLS_MINF ? -1 : sgn_ex(x_num(v)); }
SPEC int ecls_mul(T_u x, T_u y) {
  int a = x_cls(x), b = x_cls(y);
  if (a == CLS_NAN || b == CLS_NAN) return CLS_NAN;
  if (!is_inf(a) && !is_inf(b)) return CLS_FIN;
  if (x_sgn(x) == 0 || x_sgn(y) == 0) return CLS_NAN;          /* inf * 0 */
  return x_sgn(x) * x_sgn(y) > 0 ? CLS_PINF : CLS_MINF;
}
SPEC ex_t e_mul(T_u x, T_u y) { return x_num(x) * x_num(y); }
/* quotient x / y (a rational): undefined for y = 0 and inf/inf; finite/inf = 0 */
SPEC int ecls_div(T_u x, T_u y) {
  int a = x_cls(x), b = x_cls(y);
  if (a == CLS_NAN || b == CLS_NAN) return CLS_NAN;
  if (is_inf(a) && is_inf(b)) return CLS_NAN;
  if (b == CLS_FIN && x_num(y) == 0) return CLS_NAN;
  if (is_inf(a)) return x_sgn(x) * x_sgn(y) > 0 ? CLS_PINF : CLS_MINF;
  return CLS_FIN;
}
/* sign(x/y - t) for finite x, y != 0 (or y infinite: quotient 0) */
SPEC int c_div(T_u x, T_u y, ex_t t) {
  if (is_inf(x_cls(y))) return sgn_ex(-t);
  return sgn_ex(x_num(x) - t * x_num(y)) * sgn_ex(x_num(y));
}
/* integer (truncating) division */
SPEC ex_t e_idiv(T_u x, T_u y) { return is_inf(x_cls(y)) ? 0 : (x_num(y) == 0 ? 0 : x_num(x) / x_num(y)); }
/* remainder with the sign of the dividend; x rem inf = x */
SPEC int ecls_rem(T_u x, T_u y) {
  int a = x_cls(x), b = x_cls(y);
  if (a == CLS_NAN || b == CLS_NAN) return CLS_NAN;
  if (is_inf(a)) return CLS_NAN;
  if (b == CLS_FIN && x_num(y) == 0) return CLS_NAN;
  return CLS_FIN;
}
SPEC ex_t e_rem(T_u x, T_u y) { return is_inf(x_cls(y)) ? x_num(x) : (x_num(y) == 0 ? 0 : x_num(x) % x_num(y)); }

/* operand combinations the policies leave unchecked (CHECK_P(false, ..) in the code = caller's duty) */
SPEC int pre_add_ext(T_u x, T_u y) { return !(is_inf(x_cls(x)) && is_inf(x_cls(y)) && x_cls(x) != x_cls(y)); }
SPEC int pre_sub_ext(T_u x, T_u y) { return !(is_inf(x_cls(x)) && is_inf(x_cls(y)) && x_cls(x) == x_cls(y)); }
SPEC int pre_div_ext(T_u x, T_u y) { return !(is_inf(x_cls(x)) && is_inf(x_cls(y))) && !(x_cls(x) == CLS_FIN && x_cls(y) == CLS_FIN && x_num(y) == 0); }
SPEC int pre_rem_ext(T_u x, T_u y) { return !is_inf(x_cls(x)) && !(x_cls(x) == CLS_FIN && x_cls(y) == CLS_FIN && x_num(y) == 0); }
SPEC int pre_sqrt_ext(T_u x) { return !(x_cls(x) == CLS_FIN && x_num(x) < 0); }

/* ------------------------------------------------------------------ power-of-two family */
/* x + 2^e, x - 2^e, x * 2^e : integers (possibly huge: e is any unsigned) */
/* e is any unsigned: beyond a cap the result is out of every T range (or, for the quotient, inside (-1,1)),
   and the capped value is just as good for every comparison the postconditions make */
#define CAP_ADD (T_W + 1)                         /* 2^CAP_ADD exceeds |x| + |any T value|      */
#define CAP_MUL (T_W)                             /* x != 0  =>  x * 2^CAP_MUL lies outside [EMIN, EMAX] */
#define CAP_DIV (T_W - 1)                         /* e > CAP_DIV  =>  |x / 2^e| < 1             */
SPEC uint32_t capexp(uint32_t e, uint32_t cap) { return e > cap ? cap : e; }
SPEC ex_t e_add_2exp(T_u x, uint32_t e) { return x_num(x) + pow2(capexp(e, CAP_ADD)); }
SPEC ex_t e_sub_2exp(T_u x, uint32_t e) { return x_num(x) - pow2(capexp(e, CAP_ADD)); }
/* x * 2^e as a shift of the two's-complement image (no overflow: |x| * 2^CAP_MUL fits ex_t) */
SPEC ex_t shl_ex(ex_t a, uint32_t e) {
#if EX_W == 32
  return (ex_t)((uint32_t)a << e);
#elif EX_W == 64
  return (ex_t)((uint64_t)a << e);
#else
  return (ex_t)((unsigned __int128)a << e);
#endif
}
SPEC ex_t e_mul_2exp(T_u x, uint32_t e) { return shl_ex(x_num(x), capexp(e, CAP_MUL)); }
/* x / 2^e : rational */
SPEC int c_div_2exp(T_u x, uint32_t e, ex_t t) {
  if (e > (uint32_t)CAP_DIV) return t > 0 ? -1 : t < 0 ? 1 : sgn_ex(x_num(x));
  return cmp_ex(x_num(x), shl_ex(t, e));
}
/* x mod 2^e into [0, 2^e) and into [-2^(e-1), 2^(e-1)) */
SPEC ex_t e_umod_2exp(T_u x, uint32_t e) {
  if (e >= (uint32_t)T_W + 1) return x_num(x) >= 0 ? x_num(x) : x_num(x) + pow2(CAP_ADD);
  { ex_t m = pow2(e), r = x_num(x) % m; return r < 0 ? r + m : r; }
}
SPEC ex_t e_smod_2exp(T_u x, uint32_t e) {
  if (e >= (uint32_t)T_W + 1) return x_num(x);
  { ex_t m = pow2(e), r = x_num(x) % m; if (r < 0) r += m; return (e > 0 && r >= pow2(e - 1)) ? r - m : r; }
}
SPEC int ecls_mod_2exp(T_u x) { int c = x_cls(x); return is_inf(c) ? CLS_NAN : c; }

/* ------------------------------------------------------------------ fused multiply-add / -sub: to (+|-) x*y */
SPEC int ecls_muladd(T_u to0, T_u x, T_u y, int sub) {
  int p = ecls_mul(x, y), a = x_cls(to0);
  if (sub) p = flip(p);
  if (a == CLS_NAN || p == CLS_NAN) return CLS_NAN;
  if (is_inf(a) && is_inf(p)) return a == p ? a : CLS_NAN;
  return is_inf(a) ? a : p;
}
SPEC ex_t e_add_mul(T_u to0, T_u x, T_u y) { return x_num(to0) + x_num(x) * x_num(y); }
SPEC ex_t e_sub_mul(T_u to0, T_u x, T_u y) { return x_num(to0) - x_num(x) * x_num(y); }
/* inf + (-inf) is left unchecked by the policies: the caller's duty */
SPEC int pre_muladd_ext(T_u to0, T_u x, T_u y, int sub) {
  int p = ecls_mul(x, y), a = x_cls(to0);
  if (sub) p = flip(p);
  return !(is_inf(a) && is_inf(p) && a != p);
}

/* ------------------------------------------------------------------ classification and comparisons */
#define VR_EMPTY 0u
/* sign as a Result_Relation: VR_LT / VR_EQ / VR_GT; NaN has none */
SPEC uint32_t rel_of(int s) { return s < 0 ? V_LT : s > 0 ? V_GT : V_EQ; }
SPEC uint32_t spec_sgn(T_u x) { return x_cls(x) == CLS_NAN ? VR_EMPTY : rel_of(x_sgn(x)); }
/* order of two extended values: -1, 0, 1; 2 = unordered (NaN) */
SPEC int x_cmp(T_u x, T_u y) {
  int a = x_cls(x), b = x_cls(y);
  if (a == CLS_NAN || b == CLS_NAN) return 2;
  if (a == CLS_PINF) return b == CLS_PINF ? 0 : 1;
  if (a == CLS_MINF) return b == CLS_MINF ? 0 : -1;
  if (b == CLS_PINF) return -1;
  if (b == CLS_MINF) return 1;
  return cmp_ex(x_num(x), x_num(y));
}
SPEC uint32_t spec_cmp(T_u x, T_u y) { return x_cmp(x, y) == 2 ? VR_EMPTY : rel_of(x_cmp(x, y)); }
/* classify(v, nan, inf, sign): which of the three questions are asked determines the answer's precision */
SPEC uint32_t spec_classify(T_u v, int nan, int inf, int sign) {
  int c = x_cls(v);
  if (c == CLS_NAN && (nan || sign)) return VC_NAN;
  if (!inf && !sign) return V_LGE;
  if (c == CLS_MINF) return inf ? (V_EQ | VC_MINUS_INFINITY) : V_LT;
  if (c == CLS_PINF) return inf ? (V_EQ | VC_PLUS_INFINITY) : V_GT;
  if (sign) return rel_of(sgn_ex(x_num(v)));
  return V_LGE;
}

/* ================================================================== the contract table
 * C_<op>_PRE(X, Y, EXP)                     operand precondition (on values)
 * C_<op>_POSTS(R, TO, TO0, X, Y, EXP, DIR)  postcondition clauses
 * The same two macros serve the CBMC declaration below and the native replay
 * (tools/vlib.py expands C_<op>_POSTS(r, to, to_old, x, y, exp, dir) on the real function's result). */
#define C_assign_PRE(X, Y, EXP) (x_in_range(X))
#define C_assign_POSTS(R, TO, TO0, X, Y, EXP, DIR) POSTS_INT(R, TO, TO0, DIR, ecls_id(X), e_id(X), 0)
#define C_assign_ext_PRE(X, Y, EXP) (1)
#define C_assign_ext_POSTS(R, TO, TO0, X, Y, EXP, DIR) POSTS_INT(R, TO, TO0, DIR, ecls_id(X), e_id(X), 0)
#define C_floor_PRE(X, Y, EXP) (x_in_range(X))
#define C_floor_POSTS(R, TO, TO0, X, Y, EXP, DIR) POSTS_INT(R, TO, TO0, DIR, ecls_id(X), e_id(X), 0)
#define C_floor_ext_PRE(X, Y, EXP) (1)
#define C_floor_ext_POSTS(R, TO, TO0, X, Y, EXP, DIR) POSTS_INT(R, TO, TO0, DIR, ecls_id(X), e_id(X), 0)
#define C_ceil_PRE(X, Y, EXP) (x_in_range(X))
#define C_ceil_POSTS(R, TO, TO0, X, Y, EXP, DIR) POSTS_INT(R, TO, TO0, DIR, ecls_id(X), e_id(X), 0)
#define C_ceil_ext_PRE(X, Y, EXP) (1)
#define C_ceil_ext_POSTS(R, TO, TO0, X, Y, EXP, DIR) POSTS_INT(R, TO, TO0, DIR, ecls_id(X), e_id(X), 0)
#define C_trunc_PRE(X, Y, EXP) (x_in_range(X))
#define C_trunc_POSTS(R, TO, TO0, X, Y, EXP, DIR) POSTS_INT(R, TO, TO0, DIR, ecls_id(X), e_id(X), 0)
#define C_trunc_ext_PRE(X, Y, EXP) (1)
#define C_trunc_ext_POSTS(R, TO, TO0, X, Y, EXP, DIR) POSTS_INT(R, TO, TO0, DIR, ecls_id(X), e_id(X), 0)
#define C_neg_PRE(X, Y, EXP) (x_in_range(X))
#define C_neg_POSTS(R, TO, TO0, X, Y, EXP, DIR) POSTS_INT(R, TO, TO0, DIR, ecls_neg(X), e_neg(X), 0)
#define C_neg_ext_PRE(X, Y, EXP) (1)
#define C_neg_ext_POSTS(R, TO, TO0, X, Y, EXP, DIR) POSTS_INT(R, TO, TO0, DIR, ecls_neg(X), e_neg(X), 0)
#define C_abs_PRE(X, Y, EXP) (x_in_range(X))
#define C_abs_POSTS(R, TO, TO0, X, Y, EXP, DIR) POSTS_INT(R, TO, TO0, DIR, ecls_abs(X), e_abs(X), 0)
#define C_abs_ext_PRE(X, Y, EXP) (1)
#define C_abs_ext_POSTS(R, TO, TO0, X, Y, EXP, DIR) POSTS_INT(R, TO, TO0, DIR, ecls_abs(X), e_abs(X), 0)
#define C_sqrt_PRE(X, Y, EXP) (x_in_range(X) && x_num(X) >= 0)
#define C_sqrt_POSTS(R, TO, TO0, X, Y, EXP, DIR) POSTS_SEM(R, TO, TO0, DIR, ecls_sqrt(X), c_sqrt(X, x_num(TO)), c_sqrt(X, EMIN), c_sqrt(X, EMAX), 0)
#define C_sqrt_ext_PRE(X, Y, EXP) (pre_sqrt_ext(X))
#define C_sqrt_ext_POSTS(R, TO, TO0, X, Y, EXP, DIR) POSTS_SEM(R, TO, TO0, DIR, ecls_sqrt(X), c_sqrt(X, x_num(TO)), c_sqrt(X, EMIN), c_sqrt(X, EMAX), 0)
#define C_add_PRE(X, Y, EXP) (x_in_range(X) && x_in_range(Y))
#define C_add_POSTS(R, TO, TO0, X, Y, EXP, DIR) POSTS_INT(R, TO, TO0, DIR, ecls_add(X, Y), e_add(X, Y), 0)
#define C_add_ext_PRE(X, Y, EXP) (pre_add_ext(X, Y))
#define C_add_ext_POSTS(R, TO, TO0, X, Y, EXP, DIR) POSTS_INT(R, TO, TO0, DIR, ecls_add(X, Y), e_add(X, Y), 0)
#define C_sub_PRE(X, Y, EXP) (x_in_range(X) && x_in_range(Y))
#define C_sub_POSTS(R, TO, TO0, X, Y, EXP, DIR) POSTS_INT(R, TO, TO0, DIR, ecls_sub(X, Y), e_sub(X, Y), 0)
#define C_sub_ext_PRE(X, Y, EXP) (pre_sub_ext(X, Y))
#define C_sub_ext_POSTS(R, TO, TO0, X, Y, EXP, DIR) POSTS_INT(R, TO, TO0, DIR, ecls_sub(X, Y), e_sub(X, Y), 0)
#define C_mul_PRE(X, Y, EXP) (x_in_range(X) && x_in_range(Y))
#define C_mul_POSTS(R, TO, TO0, X, Y, EXP, DIR) POSTS_INT(R, TO, TO0, DIR, ecls_mul(X, Y), e_mul(X, Y), 0)
#define C_mul_ext_PRE(X, Y, EXP) (1)
#define C_mul_ext_POSTS(R, TO, TO0, X, Y, EXP, DIR) POSTS_INT(R, TO, TO0, DIR, ecls_mul(X, Y), e_mul(X, Y), 0)
#define C_div_PRE(X, Y, EXP) (x_in_range(X) && x_in_range(Y) && x_num(Y) != 0)
#define C_div_POSTS(R, TO, TO0, X, Y, EXP, DIR) POSTS_SEM(R, TO, TO0, DIR, ecls_div(X, Y), c_div(X, Y, x_num(TO)), c_div(X, Y, EMIN), c_div(X, Y, EMAX), 0)
#define C_div_ext_PRE(X, Y, EXP) (pre_div_ext(X, Y))
#define C_div_ext_POSTS(R, TO, TO0, X, Y, EXP, DIR) POSTS_SEM(R, TO, TO0, DIR, ecls_div(X, Y), c_div(X, Y, x_num(TO)), c_div(X, Y, EMIN), c_div(X, Y, EMAX), 0)
#define C_idiv_PRE(X, Y, EXP) (x_in_range(X) && x_in_range(Y) && x_num(Y) != 0)
#define C_idiv_POSTS(R, TO, TO0, X, Y, EXP, DIR) POSTS_INT(R, TO, TO0, DIR, ecls_div(X, Y), e_idiv(X, Y), 0)
#define C_idiv_ext_PRE(X, Y, EXP) (pre_div_ext(X, Y))
#define C_idiv_ext_POSTS(R, TO, TO0, X, Y, EXP, DIR) POSTS_INT(R, TO, TO0, DIR, ecls_div(X, Y), e_idiv(X, Y), 0)
#define C_rem_PRE(X, Y, EXP) (x_in_range(X) && x_in_range(Y) && x_num(Y) != 0)
#define C_rem_POSTS(R, TO, TO0, X, Y, EXP, DIR) POSTS_INT(R, TO, TO0, DIR, ecls_rem(X, Y), e_rem(X, Y), 0)
#define C_rem_ext_PRE(X, Y, EXP) (pre_rem_ext(X, Y))
#define C_rem_ext_POSTS(R, TO, TO0, X, Y, EXP, DIR) POSTS_INT(R, TO, TO0, DIR, ecls_rem(X, Y), e_rem(X, Y), 0)
#define C_add_2exp_PRE(X, Y, EXP) (x_in_range(X))
#define C_add_2exp_POSTS(R, TO, TO0, X, Y, EXP, DIR) POSTS_INT(R, TO, TO0, DIR, ecls_id(X), e_add_2exp(X, EXP), 0)
#define C_add_2exp_ext_PRE(X, Y, EXP) (1)
#define C_add_2exp_ext_POSTS(R, TO, TO0, X, Y, EXP, DIR) POSTS_INT(R, TO, TO0, DIR, ecls_id(X), e_add_2exp(X, EXP), 0)
#define C_sub_2exp_PRE(X, Y, EXP) (x_in_range(X))
#define C_sub_2exp_POSTS(R, TO, TO0, X, Y, EXP, DIR) POSTS_INT(R, TO, TO0, DIR, ecls_id(X), e_sub_2exp(X, EXP), 0)
#define C_sub_2exp_ext_PRE(X, Y, EXP) (1)
#define C_sub_2exp_ext_POSTS(R, TO, TO0, X, Y, EXP, DIR) POSTS_INT(R, TO, TO0, DIR, ecls_id(X), e_sub_2exp(X, EXP), 0)
#define C_mul_2exp_PRE(X, Y, EXP) (x_in_range(X))
#define C_mul_2exp_POSTS(R, TO, TO0, X, Y, EXP, DIR) POSTS_INT(R, TO, TO0, DIR, ecls_id(X), e_mul_2exp(X, EXP), 0)
#define C_mul_2exp_ext_PRE(X, Y, EXP) (1)
#define C_mul_2exp_ext_POSTS(R, TO, TO0, X, Y, EXP, DIR) POSTS_INT(R, TO, TO0, DIR, ecls_id(X), e_mul_2exp(X, EXP), 0)
#define C_div_2exp_PRE(X, Y, EXP) (x_in_range(X))
#define C_div_2exp_POSTS(R, TO, TO0, X, Y, EXP, DIR) POSTS_SEM(R, TO, TO0, DIR, ecls_id(X), c_div_2exp(X, EXP, x_num(TO)), c_div_2exp(X, EXP, EMIN), c_div_2exp(X, EXP, EMAX), 0)
#define C_div_2exp_ext_PRE(X, Y, EXP) (1)
#define C_div_2exp_ext_POSTS(R, TO, TO0, X, Y, EXP, DIR) POSTS_SEM(R, TO, TO0, DIR, ecls_id(X), c_div_2exp(X, EXP, x_num(TO)), c_div_2exp(X, EXP, EMIN), c_div_2exp(X, EXP, EMAX), 0)
#define C_umod_2exp_PRE(X, Y, EXP) (x_in_range(X))
#define C_umod_2exp_POSTS(R, TO, TO0, X, Y, EXP, DIR) POSTS_INT(R, TO, TO0, DIR, ecls_mod_2exp(X), e_umod_2exp(X, EXP), 0)
#define C_umod_2exp_ext_PRE(X, Y, EXP) (!is_inf(x_cls(X)))
#define C_umod_2exp_ext_POSTS(R, TO, TO0, X, Y, EXP, DIR) POSTS_INT(R, TO, TO0, DIR, ecls_mod_2exp(X), e_umod_2exp(X, EXP), 0)
#define C_smod_2exp_PRE(X, Y, EXP) (x_in_range(X) && EXP >= 1)
#define C_smod_2exp_POSTS(R, TO, TO0, X, Y, EXP, DIR) POSTS_INT(R, TO, TO0, DIR, ecls_mod_2exp(X), e_smod_2exp(X, EXP), 0)
#define C_smod_2exp_ext_PRE(X, Y, EXP) (!is_inf(x_cls(X)) && EXP >= 1)
#define C_smod_2exp_ext_POSTS(R, TO, TO0, X, Y, EXP, DIR) POSTS_INT(R, TO, TO0, DIR, ecls_mod_2exp(X), e_smod_2exp(X, EXP), 0)

#define C_add_mul_PRE(X, Y, EXP) (x_in_range(X) && x_in_range(Y))
#define C_add_mul_POSTS(R, TO, TO0, X, Y, EXP, DIR) POSTS_INT(R, TO, TO0, DIR, ecls_muladd(TO0, X, Y, 0), e_add_mul(TO0, X, Y), 1)
#define C_add_mul_ext_PRE(X, Y, EXP) (1)
#define C_add_mul_ext_POSTS(R, TO, TO0, X, Y, EXP, DIR) POSTS_INT(R, TO, TO0, DIR, ecls_muladd(TO0, X, Y, 0), e_add_mul(TO0, X, Y), 1)
#define C_sub_mul_PRE(X, Y, EXP) (x_in_range(X) && x_in_range(Y))
#define C_sub_mul_POSTS(R, TO, TO0, X, Y, EXP, DIR) POSTS_INT(R, TO, TO0, DIR, ecls_muladd(TO0, X, Y, 1), e_sub_mul(TO0, X, Y), 1)
#define C_sub_mul_ext_PRE(X, Y, EXP) (1)
#define C_sub_mul_ext_POSTS(R, TO, TO0, X, Y, EXP, DIR) POSTS_INT(R, TO, TO0, DIR, ecls_muladd(TO0, X, Y, 1), e_sub_mul(TO0, X, Y), 1)

SPEC int ecls_of_vc(uint32_t c) { return c == VC_PLUS_INFINITY ? CLS_PINF : c == VC_MINUS_INFINITY ? CLS_MINF : CLS_NAN; }
#define C_assign_special_PRE(C) ((C) == VC_PLUS_INFINITY || (C) == VC_MINUS_INFINITY || (C) == VC_NAN)
#define C_assign_special_POSTS(R, TO, TO0, C, DIR) POSTS_INT(R, TO, TO0, DIR, ecls_of_vc(C), 0, 0)
#define C_classify_POSTS(R, X, NAN_, INF_, SIGN_) POST(encoding_sane, enc_sane()) POST(value, (R) == spec_classify(X, NAN_, INF_, SIGN_))
#define C_is_nan_PRE(X, Y, EXP) (1)
#define C_is_nan_POSTS(R, TO, TO0, X, Y, EXP, DIR) POST(value, ((R) != 0) == (x_cls(X) == CLS_NAN))
#define C_is_minf_PRE(X, Y, EXP) (1)
#define C_is_minf_POSTS(R, TO, TO0, X, Y, EXP, DIR) POST(value, ((R) != 0) == (x_cls(X) == CLS_MINF))
#define C_is_pinf_PRE(X, Y, EXP) (1)
#define C_is_pinf_POSTS(R, TO, TO0, X, Y, EXP, DIR) POST(value, ((R) != 0) == (x_cls(X) == CLS_PINF))
#define C_is_int_PRE(X, Y, EXP) (1)
#define C_is_int_POSTS(R, TO, TO0, X, Y, EXP, DIR) POST(value, ((R) != 0) == (x_cls(X) != CLS_NAN))
#define C_sgn_PRE(X, Y, EXP) (x_in_range(X))
#define C_sgn_POSTS(R, TO, TO0, X, Y, EXP, DIR) POST(value, (R) == spec_sgn(X))
#define C_sgn_ext_PRE(X, Y, EXP) (1)
#define C_sgn_ext_POSTS(R, TO, TO0, X, Y, EXP, DIR) POST(value, (R) == spec_sgn(X))
#define C_cmp_PRE(X, Y, EXP) (x_in_range(X) && x_in_range(Y))
#define C_cmp_POSTS(R, TO, TO0, X, Y, EXP, DIR) POST(value, (R) == spec_cmp(X, Y))
#define C_cmp_ext_PRE(X, Y, EXP) (1)
#define C_cmp_ext_POSTS(R, TO, TO0, X, Y, EXP, DIR) POST(value, (R) == spec_cmp(X, Y))
#define C_lt_ext_PRE(X, Y, EXP) (1)
#define C_lt_ext_POSTS(R, TO, TO0, X, Y, EXP, DIR) POST(value, ((R) != 0) == (x_cmp(X, Y) == -1))
#define C_le_ext_PRE(X, Y, EXP) (1)
#define C_le_ext_POSTS(R, TO, TO0, X, Y, EXP, DIR) POST(value, ((R) != 0) == (x_cmp(X, Y) == -1 || x_cmp(X, Y) == 0))
#define C_gt_ext_PRE(X, Y, EXP) (1)
#define C_gt_ext_POSTS(R, TO, TO0, X, Y, EXP, DIR) POST(value, ((R) != 0) == (x_cmp(X, Y) == 1))
#define C_ge_ext_PRE(X, Y, EXP) (1)
#define C_ge_ext_POSTS(R, TO, TO0, X, Y, EXP, DIR) POST(value, ((R) != 0) == (x_cmp(X, Y) == 1 || x_cmp(X, Y) == 0))
#define C_eq_ext_PRE(X, Y, EXP) (1)
#define C_eq_ext_POSTS(R, TO, TO0, X, Y, EXP, DIR) POST(value, ((R) != 0) == (x_cmp(X, Y) == 0))
#define C_ne_ext_PRE(X, Y, EXP) (1)
#define C_ne_ext_POSTS(R, TO, TO0, X, Y, EXP, DIR) POST(value, ((R) != 0) == (x_cmp(X, Y) != 0))

#if defined(VERIF_CBMC)
#define CONTRACT_UN(OP)  uint32_t FN_##OP(T_u *to, const T_u *x, uint32_t dir) \
  PRE(dir, dir_valid(dir)) PRE(operands, C_##OP##_PRE(*x, 0, 0)) ASSIGNS(*to) C_##OP##_POSTS(RET, *to, OLD(*to), OLD(*x), 0, 0, dir);
#define CONTRACT_BIN(OP) uint32_t FN_##OP(T_u *to, const T_u *x, const T_u *y, uint32_t dir) \
  PRE(dir, dir_valid(dir)) PRE(operands, C_##OP##_PRE(*x, *y, 0)) ASSIGNS(*to) C_##OP##_POSTS(RET, *to, OLD(*to), OLD(*x), OLD(*y), 0, dir);
#define CONTRACT_EXP(OP) uint32_t FN_##OP(T_u *to, const T_u *x, uint32_t exp, uint32_t dir) \
  PRE(dir, dir_valid(dir)) PRE(operands, C_##OP##_PRE(*x, 0, exp)) ASSIGNS(*to) C_##OP##_POSTS(RET, *to, OLD(*to), OLD(*x), 0, exp, dir);
#ifdef FN_assign
CONTRACT_UN(assign)
#endif
#ifdef FN_assign_ext
CONTRACT_UN(assign_ext)
#endif
#ifdef FN_floor
CONTRACT_UN(floor)
#endif
#ifdef FN_floor_ext
CONTRACT_UN(floor_ext)
#endif
#ifdef FN_ceil
CONTRACT_UN(ceil)
#endif
#ifdef FN_ceil_ext
CONTRACT_UN(ceil_ext)
#endif
#ifdef FN_trunc
CONTRACT_UN(trunc)
#endif
#ifdef FN_trunc_ext
CONTRACT_UN(trunc_ext)
#endif
#ifdef FN_neg
CONTRACT_UN(neg)
#endif
#ifdef FN_neg_ext
CONTRACT_UN(neg_ext)
#endif
#ifdef FN_abs
CONTRACT_UN(abs)
#endif
#ifdef FN_abs_ext
CONTRACT_UN(abs_ext)
#endif
#ifdef FN_sqrt
CONTRACT_UN(sqrt)
#endif
#ifdef FN_sqrt_ext
CONTRACT_UN(sqrt_ext)
#endif
#ifdef FN_add
CONTRACT_BIN(add)
#endif
#ifdef FN_add_ext
CONTRACT_BIN(add_ext)
#endif
#ifdef FN_sub
CONTRACT_BIN(sub)
#endif
#ifdef FN_sub_ext
CONTRACT_BIN(sub_ext)
#endif
#ifdef FN_mul
CONTRACT_BIN(mul)
#endif
#ifdef FN_mul_ext
CONTRACT_BIN(mul_ext)
#endif
#ifdef FN_div
CONTRACT_BIN(div)
#endif
#ifdef FN_div_ext
CONTRACT_BIN(div_ext)
#endif
#ifdef FN_idiv
CONTRACT_BIN(idiv)
#endif
#ifdef FN_idiv_ext
CONTRACT_BIN(idiv_ext)
#endif
#ifdef FN_rem
CONTRACT_BIN(rem)
#endif
#ifdef FN_rem_ext
CONTRACT_BIN(rem_ext)
#endif
#ifdef FN_add_2exp
CONTRACT_EXP(add_2exp)
#endif
#ifdef FN_add_2exp_ext
CONTRACT_EXP(add_2exp_ext)
#endif
#ifdef FN_sub_2exp
CONTRACT_EXP(sub_2exp)
#endif
#ifdef FN_sub_2exp_ext
CONTRACT_EXP(sub_2exp_ext)
#endif
#ifdef FN_mul_2exp
CONTRACT_EXP(mul_2exp)
#endif
#ifdef FN_mul_2exp_ext
CONTRACT_EXP(mul_2exp_ext)
#endif
#ifdef FN_div_2exp
CONTRACT_EXP(div_2exp)
#endif
#ifdef FN_div_2exp_ext
CONTRACT_EXP(div_2exp_ext)
#endif
#ifdef FN_umod_2exp
CONTRACT_EXP(umod_2exp)
#endif
#ifdef FN_umod_2exp_ext
CONTRACT_EXP(umod_2exp_ext)
#endif
#ifdef FN_smod_2exp
CONTRACT_EXP(smod_2exp)
#endif
#ifdef FN_smod_2exp_ext
CONTRACT_EXP(smod_2exp_ext)
#endif
/* fused ops read *to: its entry value is an operand (finite for the native layer) */
#define CONTRACT_FMA(OP, SUB, NATIVE) uint32_t FN_##OP(T_u *to, const T_u *x, const T_u *y, uint32_t dir) \
  PRE(dir, dir_valid(dir)) PRE(operands, C_##OP##_PRE(*x, *y, 0)) \
  PRE(accumulator, NATIVE ? x_in_range(*to) : pre_muladd_ext(*to, *x, *y, SUB)) ASSIGNS(*to) C_##OP##_POSTS(RET, *to, OLD(*to), OLD(*x), OLD(*y), 0, dir);
#ifdef FN_add_mul
CONTRACT_FMA(add_mul, 0, 1)
#endif
#ifdef FN_add_mul_ext
CONTRACT_FMA(add_mul_ext, 0, 0)
#endif
#ifdef FN_sub_mul
CONTRACT_FMA(sub_mul, 1, 1)
#endif
#ifdef FN_sub_mul_ext
CONTRACT_FMA(sub_mul_ext, 1, 0)
#endif
/* assign_special(v, class, dir): the exact value IS the special value named by the class */
#ifdef FN_assign_special
uint32_t FN_assign_special(T_u *to, uint32_t c, uint32_t dir)
  PRE(dir, dir_valid(dir)) PRE(class, C_assign_special_PRE(c)) ASSIGNS(*to) C_assign_special_POSTS(RET, *to, OLD(*to), c, dir);
#endif
/* predicates: the answer equals the predicate on the abstract values */
#ifdef FN_classify
uint32_t FN_classify(const T_u *x, _Bool nan, _Bool inf, _Bool sign) ASSIGNS() C_classify_POSTS(RET, *x, nan, inf, sign);
#endif
#define CONTRACT_PRED1(OP, RT) RT FN_##OP(const T_u *x) PRE(operands, C_##OP##_PRE(*x, 0, 0)) ASSIGNS() C_##OP##_POSTS(RET, 0, 0, *x, 0, 0, 0);
#define CONTRACT_PRED2(OP, RT) RT FN_##OP(const T_u *x, const T_u *y) PRE(operands, C_##OP##_PRE(*x, *y, 0)) ASSIGNS() C_##OP##_POSTS(RET, 0, 0, *x, *y, 0, 0);
#ifdef FN_is_nan
CONTRACT_PRED1(is_nan, _Bool)
#endif
#ifdef FN_is_minf
CONTRACT_PRED1(is_minf, _Bool)
#endif
#ifdef FN_is_pinf
CONTRACT_PRED1(is_pinf, _Bool)
#endif
#ifdef FN_is_int
CONTRACT_PRED1(is_int, _Bool)
#endif
#ifdef FN_sgn
CONTRACT_PRED1(sgn, uint32_t)
#endif
#ifdef FN_sgn_ext
CONTRACT_PRED1(sgn_ext, uint32_t)
#endif
#ifdef FN_cmp
CONTRACT_PRED2(cmp, uint32_t)
#endif
#ifdef FN_cmp_ext
CONTRACT_PRED2(cmp_ext, uint32_t)
#endif
#ifdef FN_lt_ext
CONTRACT_PRED2(lt_ext, _Bool)
#endif
#ifdef FN_le_ext
CONTRACT_PRED2(le_ext, _Bool)
#endif
#ifdef FN_gt_ext
CONTRACT_PRED2(gt_ext, _Bool)
#endif
#ifdef FN_ge_ext
CONTRACT_PRED2(ge_ext, _Bool)
#endif
#ifdef FN_eq_ext
CONTRACT_PRED2(eq_ext, _Bool)
#endif
#ifdef FN_ne_ext
CONTRACT_PRED2(ne_ext, _Bool)
#endif
#endif /* VERIF_CBMC */
#endif
