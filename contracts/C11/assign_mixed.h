/* C11 contracts: Checked::assign / assign_ext between two native integer types (unit units/C11/assign_mixed.cc).
 *   destination type: T_W, T_SIGNED, ENC_*      source type: F_W, F_SIGNED, ENC_F_*
 * The exact result is the source VALUE (or its class, for the extended layer); the clauses are the same
 * post_rel / post_dir / post_strict of spec.h, with comparisons carried out in 128 bits.
 */
#ifndef VERIF_C11_ASSIGN_MIXED_H
#define VERIF_C11_ASSIGN_MIXED_H
#include "spec.h"
#if F_W == 8
typedef uint8_t F_u;  typedef int8_t F_s;
#elif F_W == 16
typedef uint16_t F_u; typedef int16_t F_s;
#elif F_W == 32
typedef uint32_t F_u; typedef int32_t F_s;
#elif F_W == 64
typedef uint64_t F_u; typedef int64_t F_s;
#else
# error "F_W must be 8, 16, 32 or 64"
#endif
typedef __int128 w_t;
SPEC w_t f_num(F_u v) { return F_SIGNED ? (w_t)(F_s)v : (w_t)v; }
SPEC int f_cls(F_u v) {
  if (POL_HAS_NAN && v == ENC_F_NAN) return CLS_NAN;
  if (POL_HAS_INF && v == ENC_F_PINF) return CLS_PINF;
  if (POL_HAS_INF && v == ENC_F_MINF) return CLS_MINF;
  return CLS_FIN;
}
SPEC int f_in_range(F_u v) { return f_cls(v) == CLS_FIN && f_num(v) >= f_num(ENC_F_MIN) && f_num(v) <= f_num(ENC_F_MAX); }
SPEC int cmp_w(w_t a, w_t b) { return a < b ? -1 : (a > b ? 1 : 0); }
#define WNUM(v) ((w_t)x_num(v))
/* the source value, exactly representable in the destination: stored exactly and reported V_EQ (assignment is exact) */
SPEC int post_exact_when_representable(uint32_t r, int ecls, w_t e, T_u to_new) {
  if (ecls != CLS_FIN || e < WNUM(ENC_MIN) || e > WNUM(ENC_MAX)) return 1;
  return r == V_EQ && x_fin(to_new) && WNUM(to_new) == e;
}
#define C_assign_mixed_POSTS(R, TO, TO0, X, DIR) \
  POSTS_SEM_W(R, TO, TO0, DIR, f_cls(X), cmp_w(f_num(X), WNUM(TO)), cmp_w(f_num(X), WNUM(ENC_MIN)), cmp_w(f_num(X), WNUM(ENC_MAX))) \
  POST(exact_when_representable, post_exact_when_representable(R, f_cls(X), f_num(X), TO))
#define POSTS_SEM_W(R, TO, TO0, DIR, ECLS, C, CMIN, CMAX) \
  POST(rel,    post_rel(R, ECLS, C, CMIN, CMAX, TO, TO0, 0)) \
  POST(dir,    post_dir(R, DIR, ECLS, C, TO)) \
  POST(strict, post_strict(R, DIR, TO))
#if defined(VERIF_CBMC)
#ifdef FN_assign_mixed
uint32_t FN_assign_mixed(T_u *to, const F_u *x, uint32_t dir)
  PRE(dir, dir_valid(dir)) PRE(operand_finite, f_in_range(*x)) ASSIGNS(*to) C_assign_mixed_POSTS(RET, *to, OLD(*to), OLD(*x), dir);
#endif
#ifdef FN_assign_mixed_ext
uint32_t FN_assign_mixed_ext(T_u *to, const F_u *x, uint32_t dir)
  PRE(dir, dir_valid(dir)) ASSIGNS(*to) C_assign_mixed_POSTS(RET, *to, OLD(*to), OLD(*x), dir);
#endif
#endif
#endif
