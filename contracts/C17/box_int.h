/* C17 contract (boxes): Box<ITV>::contains_integer_point() answers exactly ("integer-point existence queries
 * answer exactly").  Abstract view and harness objects: ../C03/box_base.h (x is the operand &G_bx). */
#ifndef VERIF_C17_BOX_INT_H
#define VERIF_C17_BOX_INT_H
#include "../C03/box_base.h"
#define C_b_contains_integer_point_POSTS(R) \
  POST(exact_answer, ((R) != 0) == (!G_emptyX0 && ALLK(has_int_point(&G_xs[0]), has_int_point(&G_xs[1])))) \
  POST(x_wf, box_wf(x, G_xs)) POST(x_value_kept, box_sat(x, G_xs) == G_satX0)
#if defined(VERIF_CBMC)
_Bool FN_b_contains_integer_point(const BOX_T *x) PRE_BX ASSIGNS(FRAME_B) C_b_contains_integer_point_POSTS(RET);
#endif
#endif
