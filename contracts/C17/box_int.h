/* C17 contract (boxes): Box<ITV>::contains_integer_point() answers exactly ("integer-point existence queries
 * answer exactly").  Abstract view and harness objects: ../C03/box_base.h. */
#ifndef VERIF_C17_BOX_INT_H
#define VERIF_C17_BOX_INT_H
#include "../C03/box_base.h"
#if defined(VERIF_CBMC)
_Bool FN_b_contains_integer_point(const BOX_T *x) PRE_BX ASSIGNS(FRAME_B)
  POST(exact_answer, (RET != 0) == (!G_emptyX0 && ALLK(has_int_point(&G_xs[0]), has_int_point(&G_xs[1]))))
  POST(x_wf, box_wf(x, G_xs)) POST(x_value_kept, box_sat(x, G_xs) == G_satX0);
#endif
#endif
