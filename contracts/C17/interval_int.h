/* C17 contracts (interval layer): Interval<B, Info>::wrap_assign, drop_some_non_integer_points,
 * contains_integer_point over a native integer boundary type B.
 *
 * The clauses are the sentences of property C17 read on one interval:
 *   wrap_assign(w, r, refinement)  [the OVERFLOW_WRAPS case of Box::wrap_assign; the refinement is the guard
 *       applied to the wrapped value]: for every integer z of the receiver, if wrap(z, w, r) satisfies the
 *       refinement then wrap(z, w, r) is in the result;
 *   drop_some_non_integer_points(): the result is a subset of the receiver that still contains every
 *       integer point of it;
 *   contains_integer_point(): answers exactly.
 * Ghost state: an arbitrary integer G_z (64-bit range), an arbitrary near-standard point GA.
 */
#ifndef VERIF_C17_INTERVAL_INT_H
#define VERIF_C17_INTERVAL_INT_H
#include "../C12/interval.h"
typedef __int128 wz_t;
extern int64_t G_z;

/* membership of a (wide) integer */
SPEC int mem_wide(const ITV_T *x, wz_t v) {
  if (!lo_inf(x)) { if (v < (wz_t)lo(x) || (v == (wz_t)lo(x) && lo_open(x))) return 0; }
  if (!hi_inf(x)) { if (v > (wz_t)hi(x) || (v == (wz_t)hi(x) && hi_open(x))) return 0; }
  return 1;
}
SPEC int width_valid(uint32_t w) { return w == 8u || w == 16u || w == 32u || w == 64u || w == 128u; }
#define REP_UNSIGNED 0u
#define REP_SIGNED 1u
/* wrap(z, w, r) is computed in 128 bits; it is not representable there only for w = 128, unsigned, z < 0 */
SPEC int wrap_representable(wz_t z, uint32_t w, uint32_t r) { return !(w == 128u && r == REP_UNSIGNED && z < 0); }
SPEC wz_t wrap_val(wz_t z, uint32_t w, uint32_t r) {
  if (w >= 128u) return z;                       /* |z| < 2^63: unchanged (signed), unchanged when >= 0 (unsigned) */
  {
    wz_t m = (wz_t)1 << w;
    wz_t u = z & (m - 1);                        /* z mod 2^w in [0, 2^w) (two's complement) */
    if (r == REP_SIGNED && u >= (m >> 1)) u -= m;
    return u;
  }
}
/* an integer member, when there is one (integer bounds): the least one, else the greatest one, else 0 */
SPEC int has_int_point(const ITV_T *x) {
  if (is_empty_set(x)) return 0;
  if (lo_inf(x) || hi_inf(x)) return 1;
  return (lo(x) + (lo_open(x) ? 1 : 0)) <= (hi(x) - (hi_open(x) ? 1 : 0));
}

#define C_wrap_POSTS(R, TO, TO0, W, REP, REF) \
  POST(wf, WF(TO)) \
  POST(wrapped_integer_kept, !(mem_wide(TO0, G_z) && wrap_representable(G_z, W, REP) && mem_wide(REF, wrap_val(G_z, W, REP))) \
                              || mem_wide(TO, wrap_val(G_z, W, REP)))
#define C_drop_POSTS(R, TO, TO0) \
  POST(wf, WF(TO)) \
  POST(subset, !(GHOST_OK && mem(TO, GA)) || mem(TO0, GA)) \
  POST(integer_points_kept, !mem_wide(TO0, G_z) || mem_wide(TO, G_z))
#define C_contains_integer_point_POSTS(R, X) \
  POST(exact_answer, ((R) != 0) == has_int_point(X)) \
  POST(no_integer_when_false, (R) != 0 || !mem_wide(X, G_z))

#if defined(VERIF_CBMC)
uint32_t FN_wrap(ITV_T *to, uint32_t w, uint32_t r, const ITV_T *ref)
  PRE(wf_to, WF(to)) PRE(wf_ref, WF(ref)) PRE(width, width_valid(w)) PRE(rep, r == REP_UNSIGNED || r == REP_SIGNED)
  ASSIGNS(*to)
  C_wrap_POSTS(RET, to, OLD_ITV(to), w, r, ref);
void FN_drop(ITV_T *to)
  PRE(wf_to, WF(to))
  ASSIGNS(*to)
  C_drop_POSTS(0, to, OLD_ITV(to));
_Bool FN_contains_integer_point(const ITV_T *x)
  PRE(wf_x, WF(x))
  ASSIGNS()
  C_contains_integer_point_POSTS(RET, x);
#endif
#endif
